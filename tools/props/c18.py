"""C18 - delay-adjusted and kernel STDP agree with their formula and with each other:
case generator, Coq rendering of the per-synapse model, comparison, direct oracle (the documented rule evaluated from
the true spike times), relational oracles (kernel == dedicated rule; zero delay == unadjusted kernel rule)."""
from __future__ import annotations
import copy, glob, json, math, os, random
from collections import Counter
import framework as F

ID = "C18"
GEN = ["Stdkernels"]
LEVEL = "proof"
TECHNIQUE = ("Coq proof over a per-synapse model of the event-time bookkeeping (EventReducer fold, by induction over the spike "
             "history) and of the seven delay-adjusted / kernel trainers' forward passes (algebra over the reals, NaN modelled "
             "with option); the half kernels are re-translated from functional/stdkernels.py on every run; the hand-written "
             "trainer model is tied to the code by differential correspondence on real layers with scripted spike trains")
LEVEL_TEXT = ("Machine-checked proof (Coq, reals) that, for every spike history, batch, receptive field, per-step delay sequence and "
              "hyperparameter choice: the monitors hold the time since the true most recent spike and at every step of every run "
              "each trainer's forward is applied to t_delta = t_post_last - t_pre_last - d(t) (NaN, hence zero parts, until both "
              "sides have spiked) [cell_step_true_times, cell_step_ps_true_times (per-element tensor-valued kernel kwargs), cell_run_tv_true_times (hyperparameters re-assigned on the cell state between steps: the values in force at each step), monitor_true_times, no_change_before_both_spiked]; the (pos, neg) parts "
              "of DelayAdjustedSTDP/STDPD/MSTDP/MSTDPD (scalar and per-sample reward) net to the documented two-branch rule with "
              "the causal branch taken iff t_delta >= 0 [rule_formula, run_rule_formula, branch_iff_tdelta_nonneg]; kernel STDP "
              "with the generated exp_stdp_post/pre_kernel accumulates the same parts as the dedicated rules for sum/mean "
              "reduction [kernel_eq_delayadjusted(_delays)] - refuted for amax [kernel_eq_amax_refuted] -; with zero delays the "
              "adjusted rules are unadjusted KernelSTDP over whole runs [zero_delay_reduces_to_kernel, "
              "zero_delay_da_stdp_is_kernel_stdp]; both parts are non-negative for every trainer and kernel [parts_nonneg].")
LEVEL_NOTE = ("Trusted: Coq kernel and the standard real-number axioms (incl. classic via library lemmas); the translator for the "
              "two half kernels (also cross-checked numerically here); the hand-written model C18/DelayAdj.v of EventReducer.fold "
              "(initial='nan') and of the trainers' forward passes, validated by correspondence only (generator coverage: "
              "LinearDense/Direct/Lateral/Conv2D cells, batch<=3, <=14 steps, delays set directly or by connection.update()); "
              "torch broadcasting/nansum/einops reshapes, the monitor/hook plumbing and the Updater are modelled by their meaning "
              "(update() is checked by the oracle only). NOT proved: floating-point rounding; KernelSTDP's delayed=True view-based "
              "branch (neither proof nor correspondence here); KernelSTDP on a delayed connection is run through the "
              "correspondence with the harness supplying connection.synspike as a time shift (C06's statement), not proved here; "
              "amax reduction: correspondence, non-negativity and no-change theorems only (the agreement theorem is false for it); "
              "per-sample reward with a reduction other than sum: correspondence only.")
EXPLANATION = LEVEL_TEXT
HEADER = ("From Coq Require Import List ZArith Bool PrimFloat.\n"
          "From Inferno Require Import Base.Num Base.NumF Gen.Stdkernels C18.DelayAdj C18.DelayAdjExec.\n"
          "Import ListNotations.\nOpen Scope float_scope.\n")
IMPL = os.path.join(F.VERIF, "tools", "impl", "c18_impl.py")

TWO = ("DelayAdjustedSTDP", "DelayAdjustedSTDPD")
KER = ("KernelSTDP", "DelayAdjustedKernelSTDP", "DelayAdjustedKernelSTDPD")
THREE = ("DelayAdjustedMSTDP", "DelayAdjustedMSTDPD")
DELAYPARAM = ("DelayAdjustedSTDPD", "DelayAdjustedMSTDPD", "DelayAdjustedKernelSTDPD")
REDK = {"sum": 0, "mean": 1, "amax": 2, "amin": 3}


# --------------------------------------------------------------------------- geometry of a cell
def conv_geom(c):
    H, W, C, Fi = c["height"], c["width"], c["channels"], c["filters"]
    kh, kw = c["kernel"]
    s, p, dil = c.get("stride", 1), c.get("padding", 0), c.get("dilation", 1)
    oh = (H + 2 * p - dil * (kh - 1) - 1) // s + 1
    ow = (W + 2 * p - dil * (kw - 1) - 1) // s + 1
    return H, W, C, Fi, kh, kw, s, p, dil, oh, ow


def geometry(case):
    """-> dict(nin, nout, npre, npost, syn=[[ (pre_unit, post_unit) ]], preobs=fn(history of raw inputs, step k,
    delays) -> flat observation of the presynaptic monitor per sample)"""
    c = case["conn"]
    cls = c["cls"]
    ker_delayed = case["trainer"]["cls"] == "KernelSTDP" and c.get("delay") is not None
    if cls in ("LinearDense", "LinearLateral"):
        M = c["in"][0]
        Nn = c["out"][0] if cls == "LinearDense" else M
        nparam = M * Nn
        if ker_delayed:   # connection.synspike: B x M x N
            syn = [[(i * Nn + o, o)] for o in range(Nn) for i in range(M)]
            src = [(i, o * M + i) for i in range(M) for o in range(Nn)]     # unit -> (raw input, param element)
            return dict(nin=M, nout=Nn, npre=M * Nn, npost=Nn, syn=syn, src=src, nparam=nparam)
        syn = [[(i, o)] for o in range(Nn) for i in range(M)]
        return dict(nin=M, nout=Nn, npre=M, npost=Nn, syn=syn, src=None, nparam=nparam)
    if cls == "LinearDirect":
        n = c["in"][0]
        syn = [[(i, i)] for i in range(n)]
        src = [(i, i) for i in range(n)] if ker_delayed else None           # synspike: B x n x 1
        return dict(nin=n, nout=n, npre=n, npost=n, syn=syn, src=src, nparam=n)
    if cls == "Conv2D":
        H, W, C, Fi, kh, kw, s, p, dil, oh, ow = conv_geom(c)
        L = oh * ow
        K = C * kh * kw
        # the synapse holds the unfolded input: unit (ck, l) <- pixel or padding (None)
        unf = []
        for ch in range(C):
            for a in range(kh):
                for b in range(kw):
                    for y in range(oh):
                        for x in range(ow):
                            yy, xx = y * s - p + a * dil, x * s - p + b * dil
                            unf.append((ch * H + yy) * W + xx if 0 <= yy < H and 0 <= xx < W else None)
        if ker_delayed:   # connection.synspike: B x K x L x F
            syn = [[((ck * L + l) * Fi + f, f * L + l) for l in range(L)] for f in range(Fi) for ck in range(K)]
            src = [(ck * L + l, f * K + ck) for ck in range(K) for l in range(L) for f in range(Fi)]
            return dict(nin=C * H * W, nout=Fi * L, nsyn=K * L, npre=K * L * Fi, npost=Fi * L, syn=syn, src=src, unf=unf,
                        nparam=Fi * K)
        syn = [[((ck * L + l), f * L + l) for l in range(L)] for f in range(Fi) for ck in range(K)]
        return dict(nin=C * H * W, nout=Fi * L, nsyn=K * L, npre=K * L, npost=Fi * L, syn=syn, src=None, unf=unf,
                    nparam=Fi * K)
    raise ValueError(cls)


def pre_observations(case, g):
    """what the presynaptic monitor observes at every step, flat over (batch, unit); computed from the raw inputs:
    the synapse's input is the (for Conv2D: unfolded, zero padded) spike tensor; KernelSTDP on a delayed connection
    observes connection.synspike, i.e. per parameter element the synapse input d/dt steps earlier"""
    B = case["B"]
    dt = case["conn"]["dt"]
    nsyn = g.get("nsyn", g["nin"])
    syn_in = []
    for st in case["steps"]:
        raw = st["pre"]
        if g.get("unf") is not None:
            o = []
            for b in range(B):
                o += [0 if u is None else raw[b * g["nin"] + u] for u in g["unf"]]
        else:
            o = list(raw)
        syn_in.append(o)
    if g.get("src") is None:
        return syn_in
    obs = []
    for k, st in enumerate(case["steps"]):
        o = []
        for b in range(B):
            for (u, e) in g["src"]:
                back = int(round(st["delay_seen"][e] / dt))
                o.append(syn_in[k - back][b * nsyn + u] if k - back >= 0 else 0)
        obs.append(o)
    return obs


# --------------------------------------------------------------------------- generator
DTS = [1.0, 0.5, 0.25, 0.1]
TCS = [20.0, 15.0, 5.0, 1.3, 0.7]
LRS = [1.0, 0.5, 0.3, -1.0, -0.5, -0.3, 0.0, 0.7, -0.25]


def delay_values(dt):
    if dt == 0.1:
        return [0.0, 0.05, 0.13, 0.27]
    return [0.0, dt, 2 * dt, 3 * dt, dt / 2, 1.5 * dt]


def gen_conn(rng, dt, want_delay, conv_ok=True, force_conv=False):
    kind = rng.choice(["LinearDense"] * 4 + ["LinearDirect", "LinearLateral"] + (["Conv2D"] * 2 if conv_ok else []))
    if force_conv:
        kind = "Conv2D"
    # the maximum delay is also the bound update steps clamp learned delays to: keep it off the 0.1 grid (a t_delta that is
    # zero in exact arithmetic but not in binary64 would make a discrete observable depend on rounding)
    maxd = (0.31 if dt == 0.1 else 3 * dt) if want_delay else None
    if kind == "LinearDense":
        return {"cls": kind, "in": [rng.randint(1, 3)], "out": [rng.randint(1, 3)], "dt": dt, "delay": maxd, "bias": False}
    if kind in ("LinearDirect", "LinearLateral"):
        n = rng.randint(2, 3)
        return {"cls": kind, "in": [n], "out": [n], "dt": dt, "delay": maxd, "bias": False}
    pad = rng.choice([0, 0, 1])
    return {"cls": "Conv2D", "height": rng.choice([2, 3]), "width": rng.choice([2, 3]), "channels": rng.choice([1, 2]),
            "filters": rng.choice([1, 2]), "kernel": [2, 2] if pad == 0 else rng.choice([[2, 2], [3, 3]]),
            "stride": 1, "padding": pad, "dilation": 1, "dt": dt, "delay": maxd, "bias": False}


def gen_trainer(rng, cls):
    red = rng.choice(["sum", "sum", "sum", "mean", "mean", "mean", "amax", "amin"])
    lr_a, lr_b = rng.choice(LRS), rng.choice(LRS)
    tc_a, tc_b = rng.choice(TCS), rng.choice(TCS)
    if cls in KER:
        return assign_types(rng, {"cls": cls, "red": red, "lr_post": lr_a, "tc_post": tc_a, "lr_pre": lr_b, "tc_pre": tc_b})
    return assign_types(rng, {"cls": cls, "red": red, "lr_pos": lr_a, "lr_neg": lr_b, "tc_pos": tc_a, "tc_neg": tc_b})


HP_KEYS = {"ded": ["lr_pos", "lr_neg", "tc_pos", "tc_neg"], "ker": ["lr_post", "tc_post", "lr_pre", "tc_pre"]}
def is_f32(v):
    import struct
    return struct.unpack("f", struct.pack("f", v))[0] == v


def type_tag(rng, v, kernel_kwarg):
    """one of the TYPES a hyperparameter may be supplied in: python float / int, numpy scalars, 0-d tensors (and
    1-element tensors for kernel keyword arguments); integer types only for integral values, float32 only when exact"""
    tags = ["float", "float", "np64", "t0"]
    if float(v).is_integer():
        tags += ["int", "npi", "t0i"]
    if is_f32(v):
        tags.append("np32")
    if kernel_kwarg:
        tags += ["t0", "t1"]
    return rng.choice(tags)


def assign_types(rng, t):
    kernel = t["cls"] in KER
    t["types"] = {k: type_tag(rng, t[k], kernel) for k in HP_KEYS["ker" if kernel else "ded"] if not isinstance(t[k], list)}
    return t


def per_element(rng, t, nparam, which=("post", "pre")):
    """tensor-valued kernel keyword arguments shaped like the parameter: every element its own learning rate / time constant"""
    for w in which:
        if rng.random() < 0.7:
            t["lr_" + w] = [rng.choice(LRS) for _ in range(nparam)]
        if rng.random() < 0.5:
            t["tc_" + w] = [rng.choice(TCS) for _ in range(nparam)]
    return t


def gen_steps(rng, case, g, T, persample=None, sparse=False):
    B = case["B"]
    dt = case["conn"]["dt"]
    cls = case["trainer"]["cls"]
    has_delay = case["conn"].get("delay") is not None
    dv = delay_values(dt)
    if cls == "KernelSTDP" and has_delay:
        dv = [d for d in dv if abs(d / dt - round(d / dt)) < 1e-9] if dt != 0.1 else [0.0]
    ppre, ppost = rng.choice([0.1, 0.3, 0.5, 0.7]), rng.choice([0.1, 0.3, 0.5, 0.7])
    quiet_pre, quiet_post = rng.choice([0, 0, 1, 3]), rng.choice([0, 0, 1, 3])   # silent prefixes: "not spiked yet"
    if sparse:     # few presynaptic spikes: for a long time only SOME receptive positions of an element have a t_delta
        ppre, ppost = rng.choice([0.08, 0.15, 0.25]), rng.choice([0.3, 0.5, 0.7])
        quiet_pre, quiet_post = 0, rng.choice([0, 0, 1])
    cur = None
    draw = rng.random() < 0.5
    persample = cls in THREE and (draw if persample is None else persample)
    steps = []
    for k in range(T):
        st = {"pre": [int(k >= quiet_pre and rng.random() < ppre) for _ in range(B * g["nin"])],
              "post": [int(k >= quiet_post and rng.random() < ppost) for _ in range(B * g["nout"])],
              "delay": None}
        if has_delay and (cur is None or rng.random() < (0.5 if cls in DELAYPARAM else 0.15)):
            cur = [rng.choice(dv) if (cur is None or rng.random() < 0.6) else cur[e] for e in range(g["nparam"])]
            st["delay"] = list(cur)
        if cls in THREE:
            sig = lambda: rng.choice([-2.0, -1.0, -0.5, -0.25, 0.0, 0.25, 0.5, 1.0, 1.5])   # noqa: E731
            st["signal"] = [sig() for _ in range(B)] if persample else sig()
            st["scale"] = rng.choice([1.0, 1.0, 0.5, 2.0, -1.0])
            # the reward and the scale in every scalar TYPE the signature `float | torch.Tensor` / `float` admits: python
            # float / int, numpy float64 (a Python float by isinstance) / float32 / int64, 0-d tensors (float64 / float32 /
            # int64; a 0-d tensor reward is the scalar branch)
            if not persample:
                tags = (["float", "float", "np64", "np64", "np32", "t0", "t0", "t0f32"]
                        + (["int", "npi", "t0i", "t0i"] if float(st["signal"]).is_integer() else []))
                st["signal_type"] = rng.choice(tags)
            tags = ["float", "float", "np64", "np32", "t0"] + (["int", "npi", "t0i"] if float(st["scale"]).is_integer() else [])
            st["scale_type"] = rng.choice(tags)
        st["update"] = bool(rng.random() < 0.2) and not (cls == "KernelSTDP" and has_delay)
        if st["update"] and has_delay and cls in DELAYPARAM and rng.random() < 0.5:
            cur = None   # the delay is now whatever the rule made it: set it explicitly again at the next step
        steps.append(st)
    return steps


def gen_case(rng, cls=None, conv_ok=True):
    cls = cls or rng.choice(TWO + KER + THREE)
    dt = rng.choice(DTS)
    want_delay = True if cls != "KernelSTDP" else rng.random() < 0.5
    case = {"kind": "cell", "B": rng.randint(1, 3), "conn": gen_conn(rng, dt, want_delay, conv_ok),
            "trainer": gen_trainer(rng, cls)}
    g = geometry(case)
    if cls in KER and rng.random() < 0.35:
        assign_types(rng, per_element(rng, case["trainer"], g["nparam"]))
    case["steps"] = gen_steps(rng, case, g, rng.randint(1, 14))
    return case


def add_reassign(rng, case, g):
    """re-assign attributes of the per-cell state (unit.state) between steps: learning rates (mostly with a sign change),
    time constants, kernel keyword values (dictionary entries or buffers), the half kernels themselves, the batch
    reduction, tolerance and inplace; 1-3 events per run, the first never before step 1"""
    t = case["trainer"]
    cls = t["cls"]
    T = len(case["steps"])
    if T < 2:
        return case
    cur = {k: v for k, v in t.items() if k != "types"}
    kinds = dict(t.get("types") or {})
    keys = HP_KEYS["ker" if cls in KER else "ded"]
    for k in sorted(rng.sample(range(1, T), min(T - 1, rng.randint(1, 3)))):
        ra, rt = {}, {}
        chosen = [x for x in keys if rng.random() < 0.5] or [rng.choice([x for x in keys if x.startswith("lr_")])]
        for key in chosen:
            if key.startswith("lr_"):
                ref = cur[key][0] if isinstance(cur[key], list) else cur[key]
                mag = rng.choice([0.3, 0.5, 1.0, 0.7])
                new = (-mag if ref >= 0 else mag) if rng.random() < 0.7 else rng.choice(LRS)
            else:
                new = rng.choice(TCS)
            tensor_stored = isinstance(cur[key], list) or kinds.get(key) in ("t0", "t0i", "t1")
            if cls in KER and tensor_stored and rng.random() < 0.5:
                src = LRS if key.startswith("lr_") else TCS
                new = [rng.choice(src) for _ in range(g["nparam"])]
            elif cls in KER and not tensor_stored:
                rt[key] = rng.choice(["float", "np64"] + (["int"] if float(new).is_integer() else []))
            elif cls not in KER and float(new).is_integer() and rng.random() < 0.3:
                rt[key] = "int"
            ra[key] = new
            cur[key] = new
        if rng.random() < 0.35:
            ra["red"] = rng.choice(["sum", "mean"] if has_lists(cur) or cls in KER else ["sum", "mean", "amax"])
            cur["red"] = ra["red"]
        if cls in KER and rng.random() < 0.25:
            side = rng.choice(["post", "pre"])
            ra["kernel_" + side] = rng.choice(["zero", "exp"])
        if rng.random() < 0.2:
            ra["tolerance"] = rng.choice([0.0, 1e-6])
        if rng.random() < 0.2:
            ra["inplace"] = rng.random() < 0.5
        case["steps"][k]["reassign"] = ra
        if rt:
            case["steps"][k]["reassign_types"] = rt
    return case


def gen_reassign_case(rng, cls):
    """a cell whose per-cell state is re-configured mid-run"""
    case = gen_conv_case(rng, cls) if rng.random() < 0.25 else gen_case(rng, cls)
    g = geometry(case)
    if len(case["steps"]) < 5:
        case["steps"] = gen_steps(rng, case, g, rng.randint(5, 12))
    t = case["trainer"]
    for k in [k for k in t if k.startswith("lr_") and not isinstance(t[k], list)]:
        if t[k] == 0:
            t[k] = rng.choice([0.5, -0.5, 1.0, -0.3])
    t.pop("types", None)
    assign_types(rng, t)
    return add_reassign(rng, case, g)


def gen_conv_case(rng, cls):
    """a Conv2D cell (the one shipped geometry with more than one receptive position per parameter element; with padding
    the border positions of an element NEVER see a presynaptic spike) with a sparse presynaptic history, non-zero learning
    rates and an additive reduction: at the time of most updates some but not all receptive positions of an element are
    NaN, so that the nansum over the receptive axis matters"""
    dt = rng.choice(DTS)
    case = {"kind": "cell", "B": rng.randint(1, 2), "conn": gen_conn(rng, dt, True, force_conv=True),
            "trainer": gen_trainer(rng, cls)}
    t = case["trainer"]
    for k in [k for k in t if k.startswith("lr_")]:
        if t[k] == 0:
            t[k] = rng.choice([0.5, -0.5, 1.0, -0.3])
    t["red"] = rng.choice(["sum", "mean"])
    t.pop("types", None)
    assign_types(rng, t)
    g = geometry(case)
    case["steps"] = gen_steps(rng, case, g, rng.randint(5, 12), sparse=case["conn"]["padding"] == 0 or rng.random() < 0.5)
    return case


DED_KEYS = ["lr_pos", "lr_neg", "tc_pos", "tc_neg", "red"]


def flip_signs(rng, t, ref):
    """make the learning-rate signs of t differ from those of ref (the regressions that only show for overrides are sign
    routings taken from the wrong hyperparameters)"""
    for k in [k for k in t if k.startswith("lr_")]:
        if rng.random() < 0.7:
            mag = abs(t[k]) if t[k] != 0 else 0.5
            t[k] = -mag if ref[k] >= 0 else mag


def gen_group(rng, gid, cls=None, persample=None):
    """ONE trainer object driving 2-3 cells, each registered with keyword overrides of the hyperparameters
    (register_cell(name, cell, **kwargs)); the cells differ from each other and from the trainer's constructor defaults.
    A cell's "trainer" entry is its EFFECTIVE hyperparameter set (defaults updated with the overridden keys): that is what
    the model is instantiated with and what the oracle evaluates the documented rule with."""
    cls = cls or rng.choice(TWO + KER + THREE)
    defaults = gen_trainer(rng, cls)
    B = rng.randint(1, 3)
    T = rng.randint(1, 12)
    ncell = rng.choice([2, 2, 3])
    zero_k = cls in KER and rng.random() < 0.4
    dflt_delayed = cls == "KernelSTDP" and rng.random() < 0.4
    if zero_k:
        defaults["zero_kernels"] = True
    if dflt_delayed:
        defaults["delayed"] = True
    plain_last = ncell == 3 and not zero_k and not dflt_delayed and rng.random() < 0.5   # a cell without overrides
    cells = []
    for j in range(ncell):
        dt = rng.choice(DTS)
        want_delay = True if cls != "KernelSTDP" else rng.random() < 0.5
        conn = gen_conn(rng, dt, want_delay, conv_ok=True)
        own = gen_trainer(rng, cls)
        flip_signs(rng, own, defaults)
        if cls in KER:
            allk = ["post", "pre", "red"]
        else:
            allk = list(DED_KEYS)
        if plain_last and j == ncell - 1:
            keys = []
        elif rng.random() < 0.6:
            keys = list(allk)
        else:
            keys = [k for k in allk if rng.random() < 0.5] or [rng.choice(allk)]
        eff = {k: v for k, v in defaults.items() if k not in ("zero_kernels", "delayed")}
        for k in keys:
            if k == "post":
                eff["lr_post"], eff["tc_post"] = own["lr_post"], own["tc_post"]
            elif k == "pre":
                eff["lr_pre"], eff["tc_pre"] = own["lr_pre"], own["tc_pre"]
            else:
                eff[k] = own[k]
        eff.pop("types", None)
        if cls in KER:
            nparam = geometry({"conn": conn, "trainer": eff})["nparam"]
            which = tuple(w for w in ("post", "pre") if w in keys)
            if which and rng.random() < 0.4:
                per_element(rng, eff, nparam, which)
        assign_types(rng, eff)
        if cls in KER and (zero_k or rng.random() < 0.3):
            keys = keys + ["kernels"]
        if cls == "KernelSTDP" and (dflt_delayed or rng.random() < 0.3):
            keys = keys + ["delayed"]
        extra = {}
        if rng.random() < 0.3:
            extra["inplace"] = rng.random() < 0.5
        if rng.random() < 0.3:
            extra["interp_tolerance"] = rng.choice([0.0, 1e-6])
        case = {"kind": "cell", "B": B, "conn": conn, "trainer": eff, "group": gid, "defaults": defaults,
                "override_keys": keys, "override_extra": extra}
        g = geometry(case)
        case["steps"] = gen_steps(rng, case, g, T, persample)
        if rng.random() < 0.25:
            add_reassign(rng, case, g)
        if cells and cls in THREE:          # the reward signal is an argument of the one trainer call
            for st, st0 in zip(case["steps"], cells[0]["steps"]):
                st["signal"], st["scale"] = copy.deepcopy(st0["signal"]), st0["scale"]
                for k in ("signal_type", "scale_type"):
                    st.pop(k, None)
                    if k in st0:
                        st[k] = st0[k]
        cells.append(case)
    return cells


def gen_shared_tensor_group(rng, gid, cls):
    """kernel trainers: tensor-valued kernel keyword arguments given ONCE to the constructor and shared, as defaults, by 2-3
    cells that do not override them (each cell must get its own clone); later one cell's buffer is changed IN PLACE
    (mul_, fill_, copy_) and so is the caller's original tensor object: only that cell may change"""
    defaults = gen_trainer(rng, cls)
    for k in HP_KEYS["ker"]:
        if k.startswith("lr_") and defaults[k] == 0:
            defaults[k] = rng.choice([0.5, -0.5, 1.0, -0.3])
    defaults["red"] = rng.choice(["sum", "mean"])
    defaults["types"] = {k: rng.choice(["t0", "t1"]) for k in HP_KEYS["ker"]}
    B, T, ncell = rng.randint(1, 2), rng.randint(5, 10), rng.choice([2, 2, 3])
    cells = []
    for j in range(ncell):
        dt = rng.choice(DTS)
        conn = gen_conn(rng, dt, True if cls != "KernelSTDP" else rng.random() < 0.5, conv_ok=rng.random() < 0.3)
        eff = copy.deepcopy(defaults)
        keys = []
        if rng.random() < 0.4:
            eff["red"] = rng.choice(["sum", "mean"])
            keys = ["red"]
        case = {"kind": "cell", "B": B, "conn": conn, "trainer": eff, "group": gid, "defaults": defaults,
                "override_keys": keys, "override_extra": {}}
        case["steps"] = gen_steps(rng, case, geometry(case), T)
        for st in case["steps"]:
            st["update"] = False
        cells.append(case)

    def new_value(key, old):
        if key.startswith("tc_"):
            if rng.random() < 0.5:
                c = rng.choice([0.5, 2.0])
                return old * c, {"op": "mul_", "arg": c}
            v = rng.choice([x for x in TCS if x != old])
            return v, {"op": rng.choice(["fill_", "copy_"]), "arg": v}
        if rng.random() < 0.5:
            c = rng.choice([-1.0, 0.5, 2.0, -0.5])
            return old * c, {"op": "mul_", "arg": c}
        v = rng.choice([x for x in LRS if x not in (0.0, old)])
        return v, {"op": rng.choice(["fill_", "copy_"]), "arg": v}

    victim = rng.randrange(ncell)
    cur = {k: defaults[k] for k in HP_KEYS["ker"]}
    for k in sorted(rng.sample(range(1, T), rng.randint(1, 2))):
        ra, ops = {}, {}
        for key in [x for x in HP_KEYS["ker"] if rng.random() < 0.6] or ["lr_pre"]:
            cur[key], ops[key] = new_value(key, cur[key])
            ra[key] = cur[key]
        cells[victim]["steps"][k]["reassign"] = ra
        cells[victim]["steps"][k]["reassign_ops"] = ops
    orig = {k: defaults[k] for k in HP_KEYS["ker"]}
    k = rng.randrange(1, T)
    oo = {}
    for key in [x for x in HP_KEYS["ker"] if rng.random() < 0.6] or ["lr_pre"]:
        orig[key], oo[key] = new_value(key, orig[key])
    cells[0]["steps"][k]["original_ops"] = oo
    return cells


def gen_minmax_pair(rng):
    """kernel == dedicated rule under a NON-ADDITIVE batch reduction (amax / amin), batch of 2-3, both learning rates
    non-negative (the sign mode in which the unchanged kernel trainers agree with the dedicated rules, see the exclusion in
    expected_parts), dense histories so that on one synapse some samples are causal while others are anti-causal"""
    what = rng.choice(["kernel_eq", "kernel_eq_d"])
    cls = "DelayAdjustedSTDP" if what == "kernel_eq" else "DelayAdjustedSTDPD"
    dt = rng.choice([1.0, 0.5, 0.25])
    a = {"kind": "cell", "B": rng.choice([2, 3, 3]),
         "conn": {"cls": "LinearDense", "in": [rng.randint(1, 2)], "out": [rng.randint(1, 2)], "dt": dt, "delay": 3 * dt,
                  "bias": False},
         "trainer": gen_trainer(rng, cls)}
    ta = a["trainer"]
    ta["red"] = rng.choice(["amax", "amin"])
    ta["lr_pos"], ta["lr_neg"] = rng.choice([0.3, 0.5, 1.0, 0.7]), rng.choice([0.3, 0.5, 1.0, 0.7])
    ta.pop("types", None)
    assign_types(rng, ta)
    g = geometry(a)
    B = a["B"]
    dv = [0.0, dt, dt / 2]
    steps = []
    for k in range(rng.randint(5, 10)):
        steps.append({"pre": [int(rng.random() < 0.45) for _ in range(B * g["nin"])],
                      "post": [int(rng.random() < 0.45) for _ in range(B * g["nout"])],
                      "delay": [rng.choice(dv) for _ in range(g["nparam"])] if k == 0 else None, "update": False})
    a["steps"] = steps
    b = copy.deepcopy(a)
    if what == "kernel_eq":
        b["trainer"] = {"cls": "DelayAdjustedKernelSTDP", "red": ta["red"], "lr_post": ta["lr_pos"], "tc_post": ta["tc_pos"],
                        "lr_pre": ta["lr_neg"], "tc_pre": ta["tc_neg"]}
    else:
        b["trainer"] = {"cls": "DelayAdjustedKernelSTDPD", "red": ta["red"], "lr_post": ta["lr_neg"], "tc_post": ta["tc_neg"],
                        "lr_pre": ta["lr_pos"], "tc_pre": ta["tc_pos"]}
    assign_types(rng, b["trainer"])
    return what + "_minmax", a, b


def gen_pair(rng):
    """two cells fed the same spike trains whose accumulated parts must coincide"""
    what = rng.choice(["kernel_eq", "kernel_eq_d", "zero_delay", "zero_delay_da"])
    red = rng.choice(["sum", "mean"])
    a = gen_case(rng, {"kernel_eq": "DelayAdjustedSTDP", "kernel_eq_d": "DelayAdjustedSTDPD",
                       "zero_delay": "DelayAdjustedKernelSTDP", "zero_delay_da": "DelayAdjustedSTDP"}[what])
    a["trainer"]["red"] = red
    for st in a["steps"]:
        st["update"] = False
    b = copy.deepcopy(a)
    ta = a["trainer"]
    if what == "kernel_eq":
        b["trainer"] = {"cls": "DelayAdjustedKernelSTDP", "red": red, "lr_post": ta["lr_pos"], "tc_post": ta["tc_pos"],
                        "lr_pre": ta["lr_neg"], "tc_pre": ta["tc_neg"]}
    elif what == "kernel_eq_d":
        b["trainer"] = {"cls": "DelayAdjustedKernelSTDPD", "red": red, "lr_post": ta["lr_neg"], "tc_post": ta["tc_neg"],
                        "lr_pre": ta["lr_pos"], "tc_pre": ta["tc_pos"]}
    else:
        for st in a["steps"]:
            if st["delay"] is not None:
                st["delay"] = [0.0] * len(st["delay"])
        b = copy.deepcopy(a)
        b["conn"]["delay"] = None
        for st in b["steps"]:
            st["delay"] = None
        if what == "zero_delay":
            b["trainer"] = dict(ta, cls="KernelSTDP")
        else:
            b["trainer"] = {"cls": "KernelSTDP", "red": red, "lr_post": ta["lr_pos"], "tc_post": ta["tc_pos"],
                            "lr_pre": ta["lr_neg"], "tc_pre": ta["tc_neg"]}
    b["trainer"].pop("types", None)
    assign_types(rng, b["trainer"])
    return what, a, b


def gen_kernel_case(rng):
    diff = rng.choice([0.0, -0.0, 0.5, -0.5, 1.0, -1.0, 0.1, -0.1, 1.3, -2.7, 40.0, -40.0, 1e-300, -1e-300])
    return {"kind": "kernel", "diff": diff, "lr": rng.choice(LRS), "tc": rng.choice(TCS)}


# --------------------------------------------------------------------------- Coq rendering
def q_nat_pairs(syn):
    return "[" + "; ".join("[" + "; ".join(f"({a},{b})" for a, b in s) + "]" for s in syn) + "]%nat"


def q_zlist(bits):
    return "[" + "; ".join(str(int(b)) for b in bits) + "]%Z"


def has_lists(t):
    return any(isinstance(v, list) for v in t.values())


def element_trainer(t, e):
    return {k: (v[e] if isinstance(v, list) else v) for k, v in t.items()}


def q_trainer(t):
    cls = t["cls"]
    f = F.coq_float
    if cls in ("DelayAdjustedSTDP", "DelayAdjustedMSTDP"):
        ctor = "TDaStdp" if cls == "DelayAdjustedSTDP" else "TDaMstdp"
        return f"({ctor} FN {f(t['lr_pos'])} {f(t['lr_neg'])} {f(t['tc_pos'])} {f(t['tc_neg'])})"
    if cls in ("DelayAdjustedSTDPD", "DelayAdjustedMSTDPD"):
        ctor = "TDaStdpD" if cls == "DelayAdjustedSTDPD" else "TDaMstdpD"
        return f"({ctor} FN {f(t['lr_neg'])} {f(t['lr_pos'])} {f(t['tc_neg'])} {f(t['tc_pos'])})"
    adj = "false" if cls == "KernelSTDP" else "true"
    return f"(exp_kernels {adj} {f(t['lr_post'])} {f(t['tc_post'])} {f(t['lr_pre'])} {f(t['tc_pre'])})"


def q_signal(st, cls):
    if cls not in THREE:
        return "SigNone"
    sc = F.coq_float(st.get("scale", 1.0))
    if isinstance(st["signal"], list):
        return f"(SigTensor FN {F.coq_list([F.coq_float(s) for s in st['signal']])} {sc})"
    return f"(SigScalar FN {F.coq_float(st['signal'])} {sc})"


def live_trainers(case):
    """the hyperparameters in force at every step: the registered (effective) ones, updated by the re-assignments of the
    per-cell state made before that step; a half kernel swapped for the zero kernel acts like a zero learning rate"""
    cur = {k: v for k, v in case["trainer"].items() if k != "types"}
    out = []
    for st in case["steps"]:
        for k, v in (st.get("reassign") or {}).items():
            if k in ("kernel_post", "kernel_pre"):
                cur["zero_" + k[7:]] = v == "zero"
            elif k not in ("tolerance", "inplace"):
                cur[k] = v
        t = dict(cur)
        for side in ("post", "pre"):
            if t.pop("zero_" + side, False):
                t["lr_" + side] = [0.0] * len(t["lr_" + side]) if isinstance(t["lr_" + side], list) else 0.0
        out.append(t)
    return out


def has_reassign(case):
    return any(st.get("reassign") for st in case["steps"])


def q_case(case, g, obs):
    if case["kind"] == "kernel":
        return f"run_kernels {F.coq_float(case['diff'])} {F.coq_float(case['lr'])} {F.coq_float(case['tc'])}"
    cls = case["trainer"]["cls"]
    steps = []
    for st, o in zip(case["steps"], obs):
        dl = st["delay_seen"] if st["delay_seen"] is not None else [0.0] * g["nparam"]
        steps.append(f"step {q_zlist(o)} {q_zlist(st['post'])} {F.coq_list([F.coq_float(d) for d in dl])} {q_signal(st, cls)}")
    if has_reassign(case):
        tvs = []
        for t, stp in zip(live_trainers(case), steps):
            if has_lists(t):
                trs = F.coq_list([q_trainer(element_trainer(t, e)) for e in range(g["nparam"])])
            else:
                trs = f"(repeat {q_trainer(t)} {g['nparam']}%nat)"
            tvs.append(f"tv {REDK[t['red']]}%Z {trs} ({stp})")
        return (f"run_case_tv {case['B']} {g['npre']} {g['npost']} {q_nat_pairs(g['syn'])} {F.coq_float(case['conn']['dt'])} "
                f"{F.coq_list(tvs)}")
    if has_lists(case["trainer"]):
        trs = F.coq_list([q_trainer(element_trainer(case["trainer"], e)) for e in range(g["nparam"])])
        return (f"run_case_ps {case['B']} {g['npre']} {g['npost']} {q_nat_pairs(g['syn'])} {F.coq_float(case['conn']['dt'])} "
                f"{REDK[case['trainer']['red']]}%Z {trs} {F.coq_list(steps)}")
    return (f"run_case {case['B']} {g['npre']} {g['npost']} {q_nat_pairs(g['syn'])} {F.coq_float(case['conn']['dt'])} "
            f"{REDK[case['trainer']['red']]}%Z {q_trainer(case['trainer'])} {F.coq_list(steps)}")


# --------------------------------------------------------------------------- comparison
def dec_opt_list(v):
    return None if v is None else [F.dec_float(x) for x in v]


def compare_cell(case, g, impl, model):
    """-> None or a detail dict.  impl: list of step records; model: parsed tree"""
    if len(model) != len(impl):
        return {"what": "number of steps", "impl": len(impl), "model": len(model)}
    for k, (ri, rm) in enumerate(zip(impl, model)):
        if "error" in ri:
            return {"what": "implementation raised", "step": k, "msg": ri.get("msg")}
        mpre, mpost, mparts = rm
        for nm, vi, vm in (("pre monitor", ri["pre"], mpre[0]), ("post monitor", ri["post"], mpost[0])):
            a = [F.dec_float(x) for x in vi]
            b = [F.dec_float(x) for x in vm]
            if len(a) != len(b):
                return {"what": nm + " size", "step": k, "impl": len(a), "model": len(b)}
            for j, (x, y) in enumerate(zip(a, b)):
                if (x != x) != (y != y) or (x == x and not F.close(x, y)):
                    return {"what": nm, "step": k, "index": j, "impl": x, "model": y}
        for side, nm in ((0, "pos"), (1, "neg")):
            vi = dec_opt_list(ri[nm])
            ms = [p[side] for p in mparts]
            present = [len(m) > 0 for m in ms]
            if vi is None:
                if any(present):
                    return {"what": f"{nm} part present in the model only", "step": k}
                continue
            if not all(present):
                return {"what": f"{nm} part present in the implementation only", "step": k}
            vm = [F.dec_float(m[0]) for m in ms]
            if len(vi) != len(vm):
                return {"what": f"{nm} size", "step": k, "impl": len(vi), "model": len(vm)}
            for j, (x, y) in enumerate(zip(vi, vm)):
                if not F.close(x, y):
                    return {"what": f"{nm} part", "step": k, "element": j, "impl": x, "model": y}
    return None


# --------------------------------------------------------------------------- direct oracle
STATS = Counter()
PARTIAL = Counter()     # (step, element, sample) with some but not all receptive positions having a t_delta, per trainer


def red_apply(red, xs):
    if red == "sum":
        return math.fsum(xs)
    if red == "mean":
        return math.fsum(xs) / len(xs)
    return max(xs) if red == "amax" else min(xs)


def expected_parts(case, g, k, last_pre, last_post, delays, st, t=None):
    """the documented rule evaluated from the true last spike indices; -> (pos[], neg[]) per parameter element, or None
    when the statement does not determine the parts (per-sample signal with a non-additive reduction)"""
    t = t or case["trainer"]
    cls = t["cls"]
    dt = case["conn"]["dt"]
    B = case["B"]
    red = t["red"]
    if cls in ("DelayAdjustedSTDP", "DelayAdjustedMSTDP"):
        lr_c, tc_c, lr_a, tc_a = t["lr_pos"], t["tc_pos"], t["lr_neg"], t["tc_neg"]
    elif cls in ("DelayAdjustedSTDPD", "DelayAdjustedMSTDPD"):
        lr_c, tc_c, lr_a, tc_a = t["lr_neg"], t["tc_neg"], t["lr_pos"], t["tc_pos"]
    else:
        lr_c, tc_c, lr_a, tc_a = t["lr_post"], t["tc_post"], t["lr_pre"], t["tc_pre"]
    persample = cls in THREE and isinstance(st["signal"], list)
    if persample and red != "sum":
        return None
    if cls in KER and red in ("amax", "amin"):
        # EXPLICIT EXCLUSION (theorem kernel_eq_amax_refuted, evidence key observation_amax_pairs): the kernel trainers negate
        # AFTER reducing, so with a NEGATIVE learning rate their depressing part is the batch minimum (maximum for amin) of the
        # per-sample magnitudes - the unchanged code itself disagrees with the dedicated rules there.  With non-negative
        # rates max/min commute with the scaling and the documented parts are determined.
        allv = [x for v in (lr_c, lr_a) for x in (v if isinstance(v, list) else [v])]
        if any(x < 0 for x in allv):
            return None
    pos, neg = [], []
    el = lambda v, e: v[e] if isinstance(v, list) else v     # noqa: E731  (tensor-valued kernel kwargs: one per element)
    hyper = (lr_c, tc_c, lr_a, tc_a)
    for e, pairs in enumerate(g["syn"]):
        lr_c, tc_c, lr_a, tc_a = (el(v, e) for v in hyper)
        d = 0.0 if cls == "KernelSTDP" else delays[e]
        sc, sa = [], []          # per sample: causal / anti-causal sums over the receptive field
        if len(pairs) > 1:
            for b in range(B):
                seen = sum(1 for (i, o) in pairs if last_pre[b * g["npre"] + i] is not None
                           and last_post[b * g["npost"] + o] is not None)
                if 0 < seen < len(pairs):
                    PARTIAL[cls] += 1
        ambiguous = False        # a branch decision within rounding of the boundary (only off the dyadic grid): not judged
        for b in range(B):
            c = a = 0.0
            for (i, o) in pairs:
                jp, jq = last_pre[b * g["npre"] + i], last_post[b * g["npost"] + o]
                if jp is None or jq is None:
                    continue      # no change while either side has not spiked yet
                td = (jq - jp) * dt - d        # t_post_last - t_pre_last - d
                if 0 < abs(td) < 1e-9 or (abs(td) < 1e-9 and dt == 0.1 and d != 0.0):
                    ambiguous = True
                    STATS["tdelta_within_rounding_of_zero_skipped"] += 1
                STATS["tdelta_evaluated"] += 1
                STATS["tdelta_exactly_zero"] += int(td == 0)
                STATS["tdelta_negative"] += int(td < 0)
                if td >= 0:
                    c += math.exp(-td / tc_c)
                else:
                    a += math.exp(td / tc_a)
            sc.append(c)
            sa.append(a)
        if ambiguous:
            pos.append(None)
            neg.append(None)
            continue
        p = n = 0.0
        if persample:
            gam = abs(st.get("scale", 1.0))
            for b in range(B):
                for lr, s in ((lr_c, sc[b]), (lr_a, sa[b])):
                    v = gam * st["signal"][b] * lr * s
                    if v >= 0:
                        p += v
                    else:
                        n -= v
        else:
            m = 1.0
            if cls in THREE:
                m = abs(st.get("scale", 1.0)) * st["signal"]
            for lr, s in ((lr_c, sc), (lr_a, sa)):
                mag = abs(lr * m) * red_apply(red, s)
                if lr * m >= 0:
                    p += mag
                else:
                    n += mag
        pos.append(p)
        neg.append(n)
    return pos, neg


def oracle_cell(case, g, obs, impl):
    """-> None or (detail, signature)"""
    cls = case["trainer"]["cls"]
    dt = case["conn"]["dt"]
    B = case["B"]
    last_pre = [None] * (B * g["npre"])
    last_post = [None] * (B * g["npost"])
    live = live_trainers(case)          # each step is judged with the hyperparameters in force at that step
    for k, (st, o, ri) in enumerate(zip(case["steps"], obs, impl)):
        if "error" in ri:
            return ({"step": k, "what": "implementation raised", "msg": ri.get("msg")},
                    {"trainer": cls, "what": "raised"})
        for j, s in enumerate(o):
            if s:
                last_pre[j] = k
        for j, s in enumerate(st["post"]):
            if s:
                last_post[j] = k
        # 1. the monitors hold the time since the true most recent spike, NaN before the first
        for nm, vals, last in (("pre", ri["pre"], last_pre), ("post", ri["post"], last_post)):
            vals = [F.dec_float(x) for x in vals]
            if len(vals) != len(last):
                return ({"step": k, "what": f"{nm} monitor size", "got": len(vals), "want": len(last)},
                        {"trainer": cls, "what": "monitor"})
            for j, (v, l) in enumerate(zip(vals, last)):
                want = math.nan if l is None else (k - l) * dt
                if (v != v) != (want != want) or (v == v and not F.close(v, want)):
                    return ({"step": k, "what": f"{nm} monitor: time since last spike", "unit": j, "got": v, "want": want},
                            {"trainer": cls, "what": "monitor"})
        # 2. the parts are the documented rule of t_delta = t_post_last - t_pre_last - d
        exp = expected_parts(case, g, k, last_pre, last_post, st["delay_seen"], st, live[k])
        if exp is not None:
            for nm, want in (("pos", exp[0]), ("neg", exp[1])):
                got = dec_opt_list(ri[nm])
                if got is None:
                    got = [0.0] * len(want)
                if len(got) != len(want):
                    return ({"step": k, "what": f"{nm} size", "got": len(got), "want": len(want)},
                            {"trainer": cls, "what": "parts"})
                for e, (x, y) in enumerate(zip(got, want)):
                    if y is None:
                        continue
                    if not F.close(x, y, rel=1e-9, ab=1e-12):
                        return ({"step": k, "what": f"{nm} part differs from the documented rule", "element": e,
                                 "got": x, "want": y}, {"trainer": cls, "what": "parts"})
            # 3. connection.update() changes the parameter by pos - neg
            if st.get("update") and "before" in ri:
                bef, aft = [F.dec_float(x) for x in ri["before"]], [F.dec_float(x) for x in ri["after"]]
                mask = None
                if case["conn"]["cls"] == "LinearLateral":
                    n = case["conn"]["in"][0]
                    mask = [0.0 if (e // n) == (e % n) else 1.0 for e in range(n * n)]
                for e in range(len(bef)):
                    if exp[0][e] is None:
                        continue
                    want = bef[e] + exp[0][e] - exp[1][e]
                    if mask is not None:
                        want *= mask[e]
                    if not F.close(aft[e], want, rel=1e-9, ab=1e-9):
                        return ({"step": k, "what": "parameter after update() != before + rule", "element": e,
                                 "got": aft[e], "want": want}, {"trainer": cls, "what": "update"})
    return None


def oracle_pair(what, ia, ib):
    for k, (ra, rb) in enumerate(zip(ia, ib)):
        if "error" in ra or "error" in rb:
            return {"step": k, "what": "implementation raised", "msg": ra.get("msg") or rb.get("msg")}
        for nm in ("pos", "neg"):
            a, b = dec_opt_list(ra[nm]), dec_opt_list(rb[nm])
            n = len(a) if a is not None else (len(b) if b is not None else 0)
            a = a if a is not None else [0.0] * n
            b = b if b is not None else [0.0] * n
            if len(a) != len(b):
                return {"step": k, "what": f"{nm} sizes differ", "a": len(a), "b": len(b)}
            for e, (x, y) in enumerate(zip(a, b)):
                if not F.close(x, y):
                    return {"step": k, "what": f"{what}: {nm} parts differ between the two trainers", "element": e,
                            "a": x, "b": y}
    return None


# --------------------------------------------------------------------------- driver
def attach_seen(case, impl):
    """the delays the trainer actually saw are an input of the model (they may have been changed by update() or masked)"""
    for st, ri in zip(case["steps"], impl):
        st["delay_seen"] = None if ("error" in ri or ri.get("delay") is None) else [F.dec_float(x) for x in ri["delay"]]
    for st in case["steps"][len(impl):]:
        st["delay_seen"] = None


def ensure_exec():
    """the executable model must be (re)built against the freshly translated kernels even when a proof file no longer
    compiles (no obligation file depends on C18/DelayAdjExec.vo)"""
    with F.BuildLock():
        F.make(["C18/DelayAdjExec.vo"], timeout=600)


def group_of(cases, c):
    """the replayable unit of a failing cell: the whole group when the cell shares its trainer object with others"""
    if c.get("kind") == "cell" and c.get("group") is not None:
        members = [x for x in cases if x.get("kind") == "cell" and x.get("group") == c["group"]]
        return {"kind": "group", "defaults": c["defaults"], "cells": members}
    return c


def run_impl_grouped(cases):
    """cells with the same "group" are run under ONE trainer object; results are scattered back into case order"""
    payload, where, seen = [], [], {}
    for c in cases:
        gid = c.get("group") if c.get("kind") == "cell" else None
        if gid is None:
            where.append((len(payload), None))
            payload.append(c)
        else:
            if gid not in seen:
                seen[gid] = len(payload)
                payload.append({"kind": "group", "defaults": c["defaults"], "cells": []})
            k = seen[gid]
            where.append((k, len(payload[k]["cells"])))
            payload[k]["cells"].append(c)
    res = F.run_impl(IMPL, {"cases": payload})
    return [res[k] if j is None else res[k][j] for (k, j) in where]


def evaluate(cases, pairs):
    ensure_exec()
    impl = run_impl_grouped(cases)
    geos, obss, terms = [], [], []
    for c, ri in zip(cases, impl):
        if c["kind"] == "kernel":
            geos.append(None); obss.append(None); terms.append(q_case(c, None, None))
            continue
        attach_seen(c, ri)
        g = geometry(c)
        ok = all("error" not in r for r in ri)
        o = pre_observations(c, g) if ok else None
        geos.append(g); obss.append(o)
        terms.append(q_case(c, g, o) if ok else "Nd []")
    model = F.eval_terms(ID, HEADER, terms, shard=25)
    mismatches, oracle_fail = [], []
    for c, g, o, ri, tm in zip(cases, geos, obss, impl, model):
        if isinstance(tm, Exception):
            mismatches.append({"case": c, "detail": str(tm)})
            continue
        if c["kind"] == "kernel":
            for nm, j in (("post", 0), ("pre", 1)):
                x, y = F.dec_float(ri[nm]), F.dec_float(tm[j])
                if not F.close(x, y):
                    mismatches.append({"case": c, "detail": {"what": f"exp_stdp_{nm}_kernel", "impl": x, "model": y}})
            d, lr, tc = c["diff"], c["lr"], c["tc"]
            want_post = lr * math.exp(-abs(d) / tc) if d >= 0 else 0.0
            want_pre = lr * math.exp(-abs(d) / tc) if d < 0 else 0.0
            for nm, want in (("post", want_post), ("pre", want_pre)):
                if not F.close(F.dec_float(ri[nm]), want):
                    oracle_fail.append({"case": c, "detail": {"what": f"exp_stdp_{nm}_kernel differs from its formula",
                                                              "got": F.dec_float(ri[nm]), "want": want},
                                        "signature": {"trainer": "kernel", "what": "kernel"}})
            continue
        if o is None:
            bad = next(r for r in ri if "error" in r)
            oracle_fail.append({"case": group_of(cases, c), "detail": {"what": "implementation raised", "msg": bad.get("msg")},
                                "signature": {"trainer": c["trainer"]["cls"], "what": "raised"}})
            continue
        member = ({"cell_in_group": [x for x in cases if x.get("group") == c["group"] and x.get("kind") == "cell"].index(c)}
                  if c.get("group") is not None else {})
        d = compare_cell(c, g, ri, tm)
        if d is not None:
            mismatches.append({"case": group_of(cases, c), "detail": dict(d, **member)})
        r = oracle_cell(c, g, o, ri)
        if r is not None:
            sig = dict(r[1], overrides=bool(c.get("override_keys"))) if c.get("group") is not None else r[1]
            oracle_fail.append({"case": group_of(cases, c), "detail": dict(r[0], **member), "signature": sig})
    for what, ia, ib in pairs:
        d = oracle_pair(what, impl[ia], impl[ib])
        if d is not None:
            oracle_fail.append({"case": {"kind": "pair", "what": what, "a": cases[ia], "b": cases[ib]}, "detail": d,
                                "signature": {"trainer": cases[ia]["trainer"]["cls"], "what": "pair:" + what}})
    return impl, model, mismatches, oracle_fail


def amax_observation(rng, n):
    """NOT part of the verdict (the property does not quantify over batch reductions; theorem kernel_eq_amax_refuted):
    with batch_reduction=torch.amax the kernel trainers' depressing part is the batch minimum where the dedicated rules
    take the maximum.  Counted on the implementation and recorded in the evidence only."""
    cases, pairs = [], []
    for _ in range(n):
        what, a, b = gen_pair(rng)
        if not what.startswith("kernel_eq"):
            continue
        a["B"] = b["B"] = max(2, a["B"])
        g = geometry(a)
        a["steps"] = gen_steps(rng, a, g, rng.randint(3, 10))
        for st in a["steps"]:
            st["update"] = False
        b["steps"] = copy.deepcopy(a["steps"])
        a["trainer"]["red"] = b["trainer"]["red"] = "amax"
        pairs.append((what, len(cases), len(cases) + 1))
        cases += [a, b]
    if not cases:
        return {"pairs": 0, "disagreeing": 0}
    impl = F.run_impl(IMPL, {"cases": cases})
    bad, first = 0, None
    for what, ia, ib in pairs:
        d = oracle_pair(what, impl[ia], impl[ib])
        if d is not None:
            bad += 1
            if first is None:
                first = {"detail": d, "a": strip(cases[ia]), "b": strip(cases[ib])}
    return {"pairs": len(pairs), "disagreeing": bad, "first": first,
            "note": "finding candidate, see theorem kernel_eq_amax_refuted; signature would be "
                    "{'what': 'pair:kernel_eq', 'red': 'amax'}"}


def strip(c):
    c = copy.deepcopy(c)
    if c.get("kind") == "pair":
        return {"kind": "pair", "what": c["what"], "a": strip(c["a"]), "b": strip(c["b"])}
    if c.get("kind") == "group":
        return {"kind": "group", "defaults": c["defaults"], "cells": [strip(x) for x in c["cells"]]}
    for st in c.get("steps", []):
        st.pop("delay_seen", None)
    return c


def load_corpus():
    out = []
    for p in sorted(glob.glob(os.path.join(F.VERIF, "corpus", ID, "*.json"))):
        out.append(json.load(open(p)))
    return out


def exhaustive_cases():
    """every pre/post history of length <= 4 on a 1x1 dense cell (B = 1), for each trainer family, delay in {0, dt}"""
    out = []
    for T in range(1, 5):
        for hp in range(2 ** T):
            for hq in range(2 ** T):
                for cls, d in (("DelayAdjustedSTDP", 1.0), ("DelayAdjustedSTDPD", 0.0), ("DelayAdjustedKernelSTDP", 1.0),
                               ("KernelSTDP", None)):
                    if (hp + hq + T) % 3 and T == 4:
                        continue
                    t = ({"cls": cls, "red": "sum", "lr_post": 1.0, "tc_post": 20.0, "lr_pre": -0.5, "tc_pre": 15.0}
                         if cls in KER else
                         {"cls": cls, "red": "sum", "lr_pos": 1.0, "lr_neg": -0.5, "tc_pos": 20.0, "tc_neg": 15.0})
                    steps = [{"pre": [(hp >> k) & 1], "post": [(hq >> k) & 1],
                              "delay": ([d] if (d is not None and k == 0) else None), "update": False} for k in range(T)]
                    out.append({"kind": "cell", "B": 1, "trainer": t, "steps": steps,
                                "conn": {"cls": "LinearDense", "in": [1], "out": [1], "dt": 1.0,
                                         "delay": (3.0 if d is not None else None), "bias": False}})
    return out


def run(ctx):
    rng = random.Random(ctx["seed"])
    quick = ctx["tier"] == "quick"
    STATS.clear()
    PARTIAL.clear()
    n_single, n_conv, n_reassign, n_group, n_pair, n_ker, n_minmax, n_shared = (
        (14, 21, 21, 35, 24, 20, 14, 12) if quick else (600, 350, 350, 700, 500, 300, 250, 200))
    cases = []
    pairs = []
    gid = 0
    for c in load_corpus():
        if c.get("kind") == "pair":
            pairs.append((c["what"], len(cases), len(cases) + 1))
            cases += [c["a"], c["b"]]
        elif c.get("kind") == "group":
            for x in c["cells"]:
                x["group"], x["defaults"] = gid, c["defaults"]
                cases.append(x)
            gid += 1
        else:
            cases.append(c)
    for _ in range(n_single):
        cases.append(gen_case(rng))
    for k in range(n_conv):
        cases.append(gen_conv_case(rng, (TWO + KER + THREE)[k % 7]))      # every trainer class, several each
    for k in range(n_reassign):
        cases.append(gen_reassign_case(rng, (TWO + KER + THREE)[k % 7]))  # state re-assigned mid-run, every trainer class
    for k in range(n_group):
        # every trainer class in turn, so that each of the seven is exercised with overrides in every run
        cases += gen_group(rng, gid, (TWO + KER + THREE)[k % 7], persample=(k // 7) % 2 == 0)   # both signal forms in turn
        gid += 1
    for _ in range(n_pair):
        what, a, b = gen_pair(rng)
        pairs.append((what, len(cases), len(cases) + 1))
        cases += [a, b]
    for _ in range(n_minmax):
        what, a, b = gen_minmax_pair(rng)
        pairs.append((what, len(cases), len(cases) + 1))
        cases += [a, b]
    for k in range(n_shared):
        cases += gen_shared_tensor_group(rng, gid, KER[k % 3])
        gid += 1
    for _ in range(n_ker):
        cases.append(gen_kernel_case(rng))
    if not quick:
        cases += exhaustive_cases()
    impl, model, mismatches, oracle_fail = evaluate(cases, pairs)
    for m in mismatches:
        m["case"] = strip(m["case"])
    for f in oracle_fail:
        f["case"] = strip(f["case"])
    amax_obs = amax_observation(rng, 8 if quick else 60)
    cells = [c for c in cases if c["kind"] == "cell"]
    nontrivial = set()
    silent_steps = active_steps = boundary = 0
    for c, ri in zip(cases, impl):
        if c["kind"] != "cell":
            continue
        nz = 0
        for r in ri:
            for nm in ("pos", "neg"):
                v = dec_opt_list(r.get(nm)) if "error" not in r else None
                if v and any(x != 0 for x in v):
                    nz += 1
            if "error" not in r:
                anynan = any(F.dec_float(x) != F.dec_float(x) for x in r["pre"] + r["post"])
                silent_steps += int(anynan)
                active_steps += int(not anynan)
        if nz >= 2 and len(c["steps"]) >= 2:
            nontrivial.add(json.dumps(strip(c), sort_keys=True))
    return {
        "evaluations": len(cases),
        "distinct_nontrivial": len(nontrivial),
        "rule": ("seeded random histories (1-14 steps, silent prefixes so that 'not spiked yet' phases occur) on real Serial cells "
                 "(LinearDense/Direct/Lateral, Conv2D with and without padding; batch 1-3; dt in {1, .5, .25, .1}) with a scripted "
                 "postsynaptic neuron, for the 7 trainers x all learning-rate sign modes (incl. 0) x sum/mean/amax reduction, "
                 "per-element delays on and off the time grid that change between steps (set directly or by connection.update()), "
                 "scalar and per-sample reward signals; most cells are run in groups of 2-3 under ONE trainer object and registered with "
                 "register_cell keyword overrides (learning rates incl. sign changes, time constants, kernels and their kwargs, "
                 "batch_reduction, delayed, inplace, interp_tolerance) that differ between the cells and from the trainer's "
                 "constructor defaults; every hyperparameter (trainer-level, override, kernel kwarg) is supplied in a randomly chosen "
                 "accepted type (python float/int, numpy float64/float32/int64, 0-d float/int tensors, 1-element tensors and "
                 "per-parameter-element tensors for kernel kwargs, pre and post values differing); relative to the trainer's "
                 "constructor defaults, the oracle using each cell's effective hyperparameters; a stream of cells (and a quarter of the grouped ones) "
                 "whose per-cell state attributes (learning rates incl. sign changes, time constants, kernel kwargs as dictionary "
                 "entries or buffers, the half kernels, batch reduction, tolerance, inplace) are RE-ASSIGNED between steps, model and "
                 "oracle following the values in force at each step; pairs of cells for the two agreement statements; the two half kernels on "
                 "boundary arguments; non-trivial = >=2 steps and >=2 non-zero parts"
                 + ("" if quick else "; plus every pre/post history of length <= 4 on a 1x1 cell for 4 trainers")),
        "trainer_distribution": dict(Counter(c["trainer"]["cls"] for c in cells)),
        "connection_distribution": dict(Counter(c["conn"]["cls"] for c in cells)),
        "reduction_distribution": dict(Counter(c["trainer"]["red"] for c in cells)),
        "pairs": dict(Counter(w for w, _, _ in pairs)),
        "groups_one_trainer_several_cells": len({c["group"] for c in cells if c.get("group") is not None}),
        "cells_registered_with_overrides": sum(1 for c in cells if c.get("override_keys")),
        "override_key_distribution": dict(Counter(k for c in cells for k in c.get("override_keys", []))),
        "overridden_cells_by_trainer": dict(Counter(c["trainer"]["cls"] for c in cells if c.get("override_keys"))),
        "overridden_cells_lr_sign_differs_from_default": sum(
            1 for c in cells if c.get("override_keys") and any(
                any((x >= 0) != (c["defaults"][k] >= 0) for x in (c["trainer"][k] if isinstance(c["trainer"][k], list)
                                                                    else [c["trainer"][k]]))
                for k in c["trainer"] if k.startswith("lr_"))),
        "cells_sharing_tensor_defaults_with_in_place_changes": sum(
            1 for c in cells if c.get("defaults") and not {"post", "pre"} & set(c.get("override_keys", []))
            and any(st.get("reassign_ops") or st.get("original_ops") for x in cells if x.get("group") == c["group"]
                    for st in x["steps"])),
        "cells_with_state_reassigned_mid_run_by_trainer": dict(Counter(c["trainer"]["cls"] for c in cells if has_reassign(c))),
        "reassigned_attribute_distribution": dict(Counter(k for c in cells for st in c["steps"]
                                                          for k in (st.get("reassign") or {}))),
        "partially_seen_receptive_fields_by_trainer": dict(PARTIAL),
        "conv2d_cells_by_trainer": dict(Counter(c["trainer"]["cls"] for c in cells if c["conn"]["cls"] == "Conv2D")),
        "reward_signal_type_distribution": dict(Counter(st["signal_type"] for c in cells for st in c["steps"]
                                                        if "signal_type" in st)),
        "hyperparameter_type_distribution": dict(Counter(
            tag for c in cells for t in ([c["trainer"]] + ([c["defaults"]] if c.get("defaults") else []))
            for tag in (t.get("types") or {}).values())),
        "cells_with_per_element_kernel_kwargs": sum(1 for c in cells if has_lists(c["trainer"])),
        "steps_with_a_silent_unit": silent_steps, "steps_all_units_spiked": active_steps,
        "observation_amax_pairs": amax_obs, "tdelta_statistics": dict(STATS),
        "samples": [strip(c) for c in cells[:2]],
        "mismatches": mismatches, "oracle_failures": oracle_fail,
        "traces_validated_against_impl": len(cases) - len(mismatches),
    }


def _fails(case):
    """-> detail or None (oracle or correspondence) for a single cell case or a pair"""
    if case.get("kind") == "pair":
        cs = [copy.deepcopy(case["a"]), copy.deepcopy(case["b"])]
        _, _, mm, of = evaluate(cs, [(case["what"], 0, 1)])
    elif case.get("kind") == "group":
        cs = copy.deepcopy(case["cells"])
        for x in cs:
            x["group"], x["defaults"] = 0, case["defaults"]
        _, _, mm, of = evaluate(cs, [])
    else:
        _, _, mm, of = evaluate([copy.deepcopy(case)], [])
    if of:
        return of[0]["detail"]
    if mm:
        return mm[0]["detail"]
    return None


def minimise(case, rounds=6):
    """drop trailing steps after the failing one"""
    d = _fails(case)
    if d is None:
        return case, None
    k = d.get("step") if isinstance(d, dict) else None
    if k is not None:
        c2 = copy.deepcopy(case)
        if c2.get("kind") == "pair":
            c2["a"]["steps"] = c2["a"]["steps"][:k + 1]
            c2["b"]["steps"] = c2["b"]["steps"][:k + 1]
        elif c2.get("kind") == "group":
            for x in c2["cells"]:
                x["steps"] = x["steps"][:k + 1]
        else:
            c2["steps"] = c2["steps"][:k + 1]
        d2 = _fails(c2)
        if d2 is not None:
            return strip(c2), d2
    return strip(case), d


def replay(case):
    d = _fails(case)
    if d is None:
        return True, "replay: the implementation agrees with the documented rule and with the model on this case"
    return False, "replay: still failing: " + repr(d)[:1500]
