"""C12 - checkpoint at any step, restore into another instance, identical future."""
from __future__ import annotations
import os, random, re, subprocess
from collections import Counter
import concurrent.futures as cf
import framework as F
import c11

ID = "C12"
GEN = []
LEVEL = "proof"
TECHNIQUE = ("Coq: generic resume theorem (persistent + derived state, any prefix, any compatible target) instantiated for the "
             "RecordTensor model (storage + write position), the fold-reducer machine of C07 (ten classes), the four synapse "
             "models of C04 and the eight neuron models of C03 (state dictionary = finite map keyed by the real key names), with "
             "refuted variants (no pointer, no _initial, no _count, stale derived buffers); the key sets of the models' state "
             "dictionaries are compared with the real classes' state_dict() on every run, and the persistence map is validated by "
             "save-at-k / load-into-a-used-instance / compare-futures runs")
LEVEL_TEXT = ("Proof at the model level: for any component whose state is persistent+derived, a checkpoint taken after ANY prefix "
              "and loaded into ANY compatible target reproduces the whole future (resume_equiv); instantiated and proved for the "
              "RecordTensor model (contents together with the write position; 'contents only' is refuted by a witness), for the "
              "derived-buffer pattern of the classifier (recomputed on load; 'stale buffers' refuted), and for the component models "
              "of C07 / C04 / C03: load(save s) t = s for every reachable s and every target of the same configuration, hence "
              "reducer_resume (all operations incl. views, clears, dt setter; ten class instances), synapse_resume (+ "
              "synapse_resume_from_init without side conditions) and neuron_resume; a state dictionary lacking _initial, "
              "CAReducer's _count or a synapse record's pointer is refuted by witnesses. That the REAL classes "
              "persist exactly such a set is not proved but validated: the key set of each model's state dictionary (computed by "
              "Coq from the model) must equal the real class's state_dict() key set (22 classes, fresh / stepped / cleared); real layers x neurons x synapses x delays x trainers x "
              "reducers x classifier are checkpointed through torch.save at every kind of step k, loaded (strict) into an "
              "instance with different parameters already run on other data, and every later output and the final state "
              "dictionary are compared bit-for-bit with the uninterrupted run.")
LEVEL_NOTE = ("Trusted: Coq kernel; the hand-written instances (C01/Ring.v, C07/Reducer.v, C04/Synapse.v, C03/Neuron.v, each tied "
              "by its own property's correspondence check); the harness tools/impl/c12_impl.py. Not in any state dictionary and "
              "therefore part of 'same configuration' in the theorems: constructor arguments, dt / inplace, the train/eval mode "
              "of a neuron. Not modelled: layers, connections, trainers, monitors (covered by the resume runs only); neither is any transient "
              "state outside (configuration, persistent fields) - memoised getters, aliasing between a module and a loaded "
              "checkpoint object: the model's load is a pure function of the dictionary, and that the real classes have no such "
              "hidden state is what the implementation-side protocol tests (one deserialised checkpoint object restored twice and "
              "deep-compared with a re-load of its bytes; every public getter and read-only method of every submodule exercised "
              "in the target before the load and compared right after each restore and after every later step; train / eval and "
              "adapt schedules incl. evaluation-mode futures; live state_dict() transfer with both instances stepped side by "
              "side; every component also checkpointed NESTED in containers - ModuleDict, a user nn.Module attribute, Sequential > "
              "module > ModuleDict - through the ROOT's state_dict() / load_state_dict(); in half of the cases state_dict() is the "
              "first call at step k with no observer call since construction, so the record is saved at write positions != 0; "
              "state_dict() is taken twice and must be idempotent; the source that saved is compared with a twin that did not; "
              "end-of-episode clears (reducer clear keepshape True/False, layer.clear + trainer.clear, synapse / neuron clear) 0, 1 or 2 "
              "steps before the checkpoint; restore targets that are copy.deepcopy replicas where deepcopy yields an independent "
              "instance (the original must stay untouched by the load); float64 observations into float32 records with exact "
              "value and dtype comparison of every state-dict entry and observer). Found by that protocol on the unchanged tree: the stale Accumulator.pos/.neg memo after a load (known finding "
              "C12-accumulator-cache-stale-after-load; the signature is given only when the implementation side verified equal "
              "non-zero pending-part counts, a getter read before the load and an observed value equal to the target's old "
              "reduction) and the derived buffers of a freshly constructed MaxRateClassifier (repaired in /repo; no tolerance). Interpretation: a checkpoint taken before the first step (k=0) is loaded into a fresh "
              "target, later checkpoints into targets that have seen >=1 step (lazily shaped records must match). Known finding: "
              "pending (un-applied) accumulator parts are state-dict entries, so a checkpoint between trainer() and update() "
              "cannot be loaded into an instance holding a different number of pending parts.")
IMPL = os.path.join(F.VERIF, "tools", "impl", "c12_impl.py")
REDUCERS = ["NearestTraceReducer", "CumulativeTraceReducer", "PassthroughReducer", "EventReducer", "EMAReducer", "CAReducer",
            "ScaledNearestTraceReducer", "ScaledCumulativeTraceReducer", "ConditionalNearestTraceReducer",
            "ConditionalCumulativeTraceReducer"]
COMPONENTS = REDUCERS + c11.SYNAPSES + c11.NEURONS      # every class modelled in coq/C12/Components.v
ADAPTIVE = ["ALIF", "GLIF2", "Izhikevich", "AdEx"]
NEURON_CYCLE = c11.NEURONS + ADAPTIVE                   # adaptive classes twice as often (state beyond voltage / refrac)


def coq_declared_fields():
    """The persistent fields the Coq MODEL declares per class: Components.declared_fields, evaluated by Coq (these key lists
    are proved to be the key sets of the model's `save`: red_save_keys / syn_save_keys / nrn_save_keys)."""
    d = os.path.join(F.BUILD, ID)
    os.makedirs(d, exist_ok=True)
    p = os.path.join(d, "declared_fields.v")
    with open(p, "w") as fh:
        fh.write("From Coq Require Import List String.\nFrom Inferno Require Import Base.Num C12.Components.\n"
                 "Set Printing Width 100000.\nEval vm_compute in (fun (M : Num) (x : T M) => declared_fields M x).\n")
    r = subprocess.run(["timeout", "300", "coqc", "-Q", F.COQ, "Inferno", p], stdout=subprocess.PIPE, stderr=subprocess.PIPE,
                       text=True, cwd=d)
    for ext in ("", "o", "ok", "os"):
        try:
            os.remove(p + ext)
        except OSError:
            pass
    if r.returncode != 0:
        raise RuntimeError("coqc failed on declared_fields: " + r.stderr[-600:])
    out, table, cur = r.stdout, {}, None
    for m in re.finditer(r'"([^"]*)"%string', out):
        if out[:m.start()].rstrip().endswith("("):      # ("ClassName"%string, key :: key :: nil)
            cur = m.group(1)
            table[cur] = []
        elif cur is not None:
            table[cur].append(m.group(1))
    return table


def impl_declared_fields():
    """the table tools/impl/c12_impl.py compares the real state dicts with (parsed, not imported: that module needs torch)"""
    import ast
    src = open(IMPL).read()
    tree = ast.parse(src)
    env = {}
    for node in tree.body:
        if isinstance(node, ast.Assign) and len(node.targets) == 1 and isinstance(node.targets[0], ast.Name) \
                and node.targets[0].id in ("_RED", "_REC", "_NRN", "DECLARED_FIELDS"):
            exec(compile(ast.Module([node], []), IMPL, "exec"), env)
    return {k: list(v) for k, v in env["DECLARED_FIELDS"].items()}


def gen_cases(rng, n):
    cases = []
    for i in range(n):
        kind = ["layer", "layer", "reducer", "reducer", "record", "classifier", "synapse", "neuron"][i % 8]
        seed = rng.randrange(1 << 30)
        T = rng.randint(6, 14)
        k = rng.choice([0, 1, rng.randint(0, T), rng.randint(1, T), T])
        prior = 0 if k == 0 else rng.randint(1, 4)
        if kind == "layer":
            dt = rng.choice([1.0, 0.5, 1.3])
            lk = rng.choice(["Serial", "Serial", "Biclique", "RecurrentSerial"])
            delay = rng.choice([None, 2 * dt, 3 * dt])
            n1, n2 = rng.choice(c11.NEURONS), rng.choice(c11.NEURONS)
            trainer = None
            if lk == "Serial":
                spec = {"cls": "Serial", "connection": c11.conn_spec(rng, "LinearDense", dt, delay, [3], [2]),
                        "neuron": {"cls": n1, "shape": [2], "dt": dt}}
                if rng.random() < 0.6:
                    trainer = rng.choice(c11.TRAINERS)
                    if trainer.startswith("DelayAdjusted"):
                        spec["connection"]["delay"] = 3 * dt
                    spec["connection"]["synapse"] = {"cls": "DeltaCurrent"}
                    spec["neuron"]["cls"] = rng.choice(["LIF", "QIF", "ALIF"])
            elif lk == "Biclique":
                spec = {"cls": "Biclique",
                        "connections": [["a", c11.conn_spec(rng, "LinearDense", dt, delay, [3], [2])],
                                        ["b", c11.conn_spec(rng, "LinearDense", dt, None, [3], [2])]],
                        "neurons": [["x", {"cls": n1, "shape": [2], "dt": dt}], ["y", {"cls": n2, "shape": [2], "dt": dt}]],
                        "combine": rng.choice(["sum", "mean", "max"])}
            else:
                spec = {"cls": "RecurrentSerial", "feedfwd": c11.conn_spec(rng, "LinearDense", dt, delay, [3], [2]),
                        "lateral": c11.conn_spec(rng, "LinearDense", dt, None, [2], [2]),
                        "feedback": c11.conn_spec(rng, "LinearDense", dt, None, [2], [2]),
                        "ff_neuron": {"cls": n1, "shape": [2], "dt": dt}, "fb_neuron": {"cls": n2, "shape": [2], "dt": dt}}
            c = {"kind": "layer", "in": [3], "spec": spec, "B": rng.choice([1, 2]), "T": T, "k": k, "seed": seed, "prior": prior}
            if trainer:
                c["trainer"] = trainer
                c["schedule"] = rng.choice(["every", "every", "every", "every3"])
            cases.append(c)
        elif kind == "reducer":
            dt = rng.choice([1.0, 0.5])
            kk = max(k, 1)
            c = {"kind": "reducer", "spec": {"cls": REDUCERS[(2 * (i // 8) + (i % 8 - 2)) % len(REDUCERS)], "dt": dt,
                                             # record sizes 1..5: the write position at the checkpoint is k mod size
                                             "duration": rng.choice([0.0, dt, 2 * dt, 3 * dt, 3 * dt, 4 * dt]),
                                             "inclusive": rng.random() < 0.4,
                                             "inplace": rng.random() < 0.5},
                 "shape": rng.choice([[3], [2, 2]]), "T": T, "k": kk, "seed": seed, "prior": rng.randint(1, 5)}
            if c["spec"]["cls"] == "EventReducer":
                c["spec"]["initial"] = rng.choice(["inf", "zero", "nan"])
            r = rng.random()
            if r < 0.3:
                c["target_cleared"] = True
            cases.append(c)
        elif kind in ("synapse", "neuron"):
            # a bare component of coq/C12/Components.v; no lazily shaped state, so ANY k into ANY prior (incl. 0) is in scope
            dt = rng.choice([1.0, 0.5, 1.3])
            c = {"kind": kind, "cls": (c11.SYNAPSES if kind == "synapse" else NEURON_CYCLE)[(i // 8) % (4 if kind == "synapse" else len(NEURON_CYCLE))],
                 "shape": rng.choice([[3], [2, 2]]), "B": rng.choice([1, 2]), "dt": dt, "T": T, "k": k, "seed": seed,
                 "prior": rng.randint(0, 5)}
            if kind == "synapse":
                c["delay"] = rng.choice([0.0, 2 * dt, 3 * dt, 2.5 * dt])
                c["inplace"] = rng.random() < 0.5
            r = rng.random()
            if r < 0.25:
                c["target_cleared"] = True
            elif r < 0.45:
                c["clear_at"] = rng.randint(0, T - 1)
            cases.append(c)
        elif kind == "record":
            cases.append({"kind": "record", "N": rng.randint(1, 6), "shape": rng.choice([[2], [2, 2]]), "T": T, "k": k,
                          "seed": seed, "prior": rng.randint(0, 5), "inplace": rng.random() < 0.5})
        else:
            cases.append({"kind": "classifier", "shape": rng.choice([[4], [2, 3]]), "classes": rng.choice([2, 3]), "B": 5, "T": T,
                          "k": k, "seed": seed, "prior": prior, "decay": rng.choice([0.0, 0.1])})
    return cases


def protocol_options(rng, c):
    """how the ONE deserialised checkpoint object is reused, which schedule of train / eval mode and adapt flags the source and
    the targets follow, whether the target's last step before the load ran with adaptation frozen"""
    c["second"] = rng.choice(["rewind", "third"])
    c["second_full"] = rng.random() < 0.3
    if rng.random() < 0.25:
        c["transfer"] = "live"
    c["modes"] = rng.choice(["train", "eval_after_k", "eval_after_k", "mixed", "mixed"])
    c["target_frozen_last"] = rng.random() < 0.6
    # checkpoint through the ROOT of a container holding the component(s) (torch calls state_dict / load_state_dict on the root only)
    c["nest"] = rng.choice([None, "moduledict", "attr", "deep"])
    # quiet source: no observer call before the state is saved at step k (dump() would align the record and tidy the state)
    c["quiet_source"] = rng.random() < 0.5
    # restore targets that are copy.deepcopy replicas of a constructed instance (the original is kept and must stay untouched)
    if rng.random() < 0.3:
        c["target_copy"] = rng.choice(["fresh", "after_step"])
    # end-of-episode clears of the SOURCE before the checkpoint: checkpoint 0, 1 or 2 steps after the clear
    if c["kind"] in ("reducer", "layer", "synapse", "neuron") and rng.random() < 0.45:
        key = {"reducer": "src_clear_at", "layer": "layer_clear_at"}.get(c["kind"], "clear_at")
        kk = min(c["k"], c["T"])
        c[key] = max(0, kk - rng.choice([0, 0, 1, 2]))
        c["clear_keepshape"] = rng.random() < 0.65
    # observations WIDER than the record: float64 inputs into float32 records (out-of-place writes must still convert)
    if c["kind"] in ("reducer", "record", "synapse") and rng.random() < 0.35:
        c["record_dtype"] = "float32"
        if rng.random() < 0.7:
            c["inplace"] = False
            if "spec" in c:
                c["spec"]["inplace"] = False
    if c.get("cls") in ADAPTIVE or ((c.get("spec") or {}).get("neuron") or {}).get("cls") in ADAPTIVE:
        # learned adaptation: prefer futures / targets that run with adaptation frozen (evaluation after training)
        c["modes"] = rng.choice(["eval_after_k", "eval_after_k", "mixed"])
        c["target_frozen_last"] = rng.random() < 0.8
    return c


def signature(c, r):
    if r.get("what", "").endswith("restored_observer_differs") and r.get("stale_accumulator"):
        # verified on the implementation side (stale_accumulator_evidence): only Accumulator.pos/.neg getters differ, equal non-zero
        # numbers of pending parts in checkpoint and target, getter read before the load, observed value == the target's old memo
        return {"kind": "accumulator_cache_stale_after_load"}
    if r.get("what") == "persistent_fields_differ":
        return {"kind": "persistent_fields_differ", "cls": r.get("cls") or c.get("cls") or (c.get("spec") or {}).get("cls")}
    if r.get("what") == "load_failed" and c.get("schedule") == "every3" and ("_pos" in r.get("detail", "") or "_neg" in r.get("detail", "")):
        return {"kind": "pending_accumulator_parts"}
    return {"kind": r.get("what", "?"), "component": c["kind"]}


def run(ctx):
    rng = random.Random(ctx["seed"])
    n = 240 if ctx["tier"] == "quick" else 3000
    cases = [protocol_options(rng, c) for c in gen_cases(rng, n)]
    # tie of the component models' persistent projection to the code: every modelled class, every run
    cases = [{"kind": "fields", "cls": cls, "seed": rng.randrange(1 << 30), "delay": rng.choice([0.0, 2.0])} for cls in COMPONENTS] + cases
    # corpus: the known finding's witness always runs
    cases.insert(0, KNOWN_PENDING_CASE)
    # the table the implementation side uses must be the one the Coq model declares
    mism = []
    try:
        coq_tab, impl_tab = coq_declared_fields(), impl_declared_fields()
        for cls in sorted(set(coq_tab) | set(impl_tab) | set(COMPONENTS)):
            if set(coq_tab.get(cls, ["<absent>"])) != set(impl_tab.get(cls, ["<absent in table>"])) or cls not in COMPONENTS:
                mism.append({"case": {"kind": "declared_fields", "cls": cls},
                             "detail": f"Coq model declares {coq_tab.get(cls)}, tools/impl/c12_impl.py DECLARED_FIELDS has {impl_tab.get(cls)}"})
    except Exception as e:  # noqa
        mism.append({"case": {"kind": "declared_fields"}, "detail": f"{type(e).__name__}: {str(e)[:500]}"})
    k = 8
    shards = [cases[i::k] for i in range(k)]
    with cf.ThreadPoolExecutor(k) as ex:
        outs = list(ex.map(lambda sh: F.run_impl(IMPL, {"cases": sh}) if sh else [], shards))
    res = [None] * len(cases)
    for i, o in enumerate(outs):
        for j, r in enumerate(o):
            res[i + j * k] = r
    fails = [{"case": c, "detail": {a: b for a, b in r.items() if a != "trace"}, "signature": signature(c, r)}
             for c, r in zip(cases, res) if not r["ok"]]
    # observed on the unchanged tree, outside the property's text (copy.deepcopy is not a checkpoint path) but relevant to it: a
    # deepcopy replica of any component holding a ShapedTensor / RecordTensor is NOT an independent instance, so such replicas
    # cannot serve as restore targets (the harness then falls back to a constructed target)
    notes = Counter(nt.split(":")[0] for c, r in zip(cases, res) if r.get("ok") for nt in r.get("notes", []))
    why = sorted({nt for c, r in zip(cases, res) if r.get("ok") for nt in r.get("notes", [])})[:12]
    if notes:
        print(f"FINDING-CANDIDATE: property={ID} (outside the property text, recorded only) copy.deepcopy of a component whose state lives in "
              f"ShapedTensor / RecordTensor attributes is not an independent instance - the copied tensors keep a weak reference "
              f"to the ORIGINAL owner, so stepping the replica writes the original; layers with registered cells cannot be "
              f"deep-copied at all (WeakMethod). {sum(notes.values())} replica targets replaced by constructed ones; deepcopy targets used "
              f"for: {sorted({c['kind'] for c, r in zip(cases, res) if c.get('target_copy') and r.get('ok') and not r.get('notes')})}")
    dist = Counter(c["kind"] + ":" + (c.get("trainer") or c.get("cls") or (c.get("spec") or {}).get("cls", "")) for c in cases)
    return {
        "evaluations": len(cases),
        "distinct_nontrivial": len({repr(c) for c, r in zip(cases, res) if r.get("events", 0) > 0}),
        "rule": "seeded (component, configuration, run length T in 6..14, checkpoint step k in 0..T incl. both ends, target prior steps, "
                "train/eval + adapt schedule, reuse mode of the checkpoint object) cases; checkpoint serialised once with torch.save, "
                "deserialised once, that one object loaded strictly into a differently initialised instance already run on other data "
                "(all observers exercised), then a second time (rewind / third instance), object deep-compared with a re-load of the "
                "bytes; all public getters and read-only methods compared right after each restore and after every later step; "
                "non-trivial = the run produced spikes/observations",
        "samples": cases[1:3], "component_distribution": dict(dist),
        "k_distribution": dict(Counter("k=0" if c["k"] == 0 else ("k=T" if c["k"] == c["T"] else "0<k<T") for c in cases if "k" in c)),
        "observers_per_case": dict(Counter(c["kind"] + ":" + str(r.get("observers", 0) // 10 * 10) + "+" for c, r in zip(cases, res) if r.get("ok") and c["kind"] != "fields")),
        "protocol_distribution": dict(Counter((c.get("second", "-") + ("/full" if c.get("second_full") else "") + ("/live" if c.get("transfer") else "") + "/" + c.get("modes", "-")) for c in cases if c["kind"] != "fields")),
        "deepcopy_targets_unusable": dict(notes), "deepcopy_unusable_examples": why,
        "nesting_distribution": dict(Counter(str(c.get("nest")) + ("/quiet" if c.get("quiet_source") else "") for c in cases if c["kind"] != "fields")),
        "mismatches": mism, "oracle_failures": fails, "classes_with_field_tie": len(COMPONENTS), "traces_validated_against_impl": len(cases) - len(fails),
    }


KNOWN_PENDING_CASE = {
    "kind": "layer", "in": [3], "B": 2, "T": 8, "k": 5, "seed": 11, "prior": 3, "trainer": "STDP", "schedule": "every3",
    "spec": {"cls": "Serial",
             "connection": {"cls": "LinearDense", "in": [3], "out": [2], "dt": 1.0, "delay": None, "bias": False,
                            "synapse": {"cls": "DeltaCurrent"}},
             "neuron": {"cls": "LIF", "shape": [2], "dt": 1.0}}}


def replay(case):
    r = F.run_impl(IMPL, {"cases": [case]})[0]
    return r["ok"], "replay: " + repr({a: b for a, b in r.items() if a != "trace"})[:1500]
