"""C07 - spike traces and fold reducers equal their closed forms over any event history:
case generator, Coq rendering, correspondence (model in Coq vs real reducers) and the direct oracle
(closed forms over the observation history, evaluated with math.exp - independent of the Coq model)."""
from __future__ import annotations
import copy, glob, json, math, os, random
from collections import Counter
import framework as F

ID = "C07"
GEN = ["Infra", "Trace", "Interpolation", "Math", "ReducerClasses"]
LEVEL = "proof"
TECHNIQUE = ("Coq proof: closed forms of the generated one-step trace kernels by induction over the observation list; "
             "refinement of the FoldReducer state machine (over the C01 ring-buffer model) to a newest-first list of "
             "folded states, with invariants over every operation sequence; time-indexed view characterised on and off the grid")
LEVEL_TEXT = ("Machine-checked proofs (Coq; real-number instance for the numeric statements, axiom-free for the state machine) "
              "that, for every observation history, time constant, amplitude, step time and record size: (1) the GENERATED kernels "
              "trace_cumulative / trace_nearest / *_scaled / trace_cumulative_value folded over a history equal the sum over past "
              "matching events of a*exp(-(t-t_f)/tau) / a*exp(-(t-t_last)/tau) (0 before the first event) / their "
              "(scale*input+amplitude) variants (also the conditional ones), INCLUDING histories whose step time changes between "
              "observations (decay = exp(-dt/tau) recomputed); exponential smoothing, the cumulative average and the event fold "
              "equal their defining sum / the arithmetic mean / the time since the last event; (2) the FoldReducer state machine "
              "(forward, peek, dump, view, clear, inplace, dt setter) over the C01 ring model keeps exactly the newest-first list "
              "of folded states: for each of the ten shipped classes, a fresh reducer that observed x_1..x_n holds k steps back "
              "the closed form of x_1..x_(n-k) (fill value before the first observation); peek is the closed form of the whole "
              "history, dump lists the record newest first, view(k*dt within tolerance) returns the k-th entry, view off the grid "
              "returns the reducer's interpolation of the two neighbouring entries sampled at the time elapsed since the earlier "
              "one (analytic decay / elapsed time / previous value / linear), out-of-range times raise, the float-time and "
              "tensor-time code paths agree; every element of a tensor observation evolves independently by the one-element "
              "machine; inplace does not matter; clear() at any point of any operation sequence returns exactly the freshly "
              "constructed reducer, clear(keepshape=True) leaves an all-fill record and the next observation is folded as a first "
              "one; the dt setter stores dt, recomputes the decay and rejects non-positive values; structural invariants hold in "
              "every reachable state.  (3) CLASS WIRING: for each of the ten shipped classes the model's per-element fold (which "
              "kernel, which attribute as which argument), decay expression exp(-dt/time_constant) (constructor and dt setter, "
              "which must agree), interpolate and fill value are PROVED EQUAL (57 tie_* obligations, coq/C07/GenTie*.v) to "
              "definitions generated from the class bodies in inferno/observe/reducers/{trace,general,stats}.py "
              "(Gen/ReducerClasses.v), and the model's forward / clear / peek / dump / view are proved to follow the statement "
              "structure of FoldReducer in base.py, emitted only when the method bodies have exactly the expected statement "
              "shapes.  The model is tied to the code by re-translating the trace / interpolation / smoothing kernels, the "
              "reducer classes and the record-size expression on every run and by a differential correspondence check of all "
              "ten reducer classes (and of the six bare kernels) against the real code; closed forms over the observation "
              "history evaluated in Python are the direct oracle / failing-input search.")
LEVEL_NOTE = ("Trusted: Coq kernel + stdlib real axioms (sig_forall_dec, sig_not_dec, functional_extensionality_dep, classic); "
              "translator (tools/translate.py) for core/trace.py, core/math.py exponential_smoothing, functional/interpolation.py, "
              "the record-size expression and - new - the reducer classes: its per-element reading of the class bodies "
              "(self.<attr> reads become parameters, casts to the storage data type are the identity on numbers, "
              "partial(lambda o, c: c, c=cond) is the constant function of the condition) and its exact-shape check of the "
              "FoldReducer method bodies (the emitted structure is a fixed text guarded by that check, not a general statement "
              "translation). STILL hand-written in C07/Reducer.v and validated by correspondence only (generator coverage): "
              "zipping the per-element fold over a tensor and the shape errors, the threading of errors and of the CA counter "
              "through forward, RecordTensor.select (view, scalar and tensor paths), the dt setter's record resize, the "
              "EventReducer's non-finite initial values inf / nan (option lifting; proved to agree with the generated fold on "
              "finite values) and the string -> value mapping of its `initial` argument, constructor argument validation. NOT "
              "proved: binary64 rounding; the record CONTENTS after a dt change that resizes the record and the machine-level "
              "closed form across a dt change (kernel-level closed form with varying dt is proved; the machine level is covered "
              "by correspondence + oracle only); torch broadcasting of unequal observation shapes (the generator only uses "
              "unbroadcastable wrong shapes); time-tensor dimensionality errors. Finding candidate (error path, outside the "
              "property's quantifier, proved as ca_count_after_failed_forward_refuted, reported in the evidence, not counted): "
              "CAReducer._count is advanced by a forward() that raises.")
TRUSTED = ["tools/translate.py translate_reducer_classes: per-element reading of the ten fold reducer class bodies "
           "(fold / decay / interpolate / fill) and exact-shape check of FoldReducer.forward / clear / peek / dump / view / push "
           "(Gen/ReducerClasses.v, regenerated on every run; the model is proved equal to it in coq/C07/GenTie*.v)",
           "hand-written parts of coq/C07/Reducer.v not covered by the ties: tensor zipping and shape errors, error / counter "
           "threading in forward, RecordTensor.select, dt-setter record resize, EventReducer inf / nan lifting"]
HEADER = ("From Coq Require Import List ZArith Bool PrimFloat.\n"
          "From Inferno Require Import Base.Num Base.NumF Gen.Trace C01.Ring C07.Reducer C07.ReducerExec.\n"
          "Import ListNotations.\nOpen Scope float_scope.\n")
IMPL = os.path.join(F.VERIF, "tools", "impl", "c07_impl.py")

KINDS = ["nearest", "cumulative", "snearest", "scumulative", "cnearest", "ccumulative", "event", "pass", "ema", "ca"]
TRACE_KINDS = KINDS[:6]
DEFAULT_TOL = 1e-7      # FoldReducer.view default


def nel(shape):
    n = 1
    for s in shape:
        n *= s
    return n


# ------------------------------------------------------------------ generator
def gen_params(rng, kind):
    tau = rng.choice([2.0, 20.0, 0.7, 1.3, 5.0])
    amp = rng.choice([1.0, 1.5, -0.5, 0.1, 2.0])
    if kind in ("nearest", "cumulative"):
        if rng.random() < 0.5:
            return {"tau": tau, "amp": amp, "target": True, "tol": None, "obs": "bool"}
        return {"tau": tau, "amp": amp, "target": 1.0, "tol": rng.choice([None, 0.25, 0.5]), "obs": "grid"}
    if kind in ("snearest", "scumulative"):
        return {"tau": tau, "amp": rng.choice([0.0, amp]), "scale": rng.choice([1.0, 0.5, -1.3, 0.1]),
                "crit": rng.choice([["gt", 0.5], ["ge", 0.5], ["ne", 0.0], ["lt", 0.25]]), "obs": "real"}
    if kind in ("cnearest", "ccumulative"):
        return {"tau": tau, "amp": rng.choice([0.0, amp]), "scale": rng.choice([1.0, 0.5, -1.3, 0.1]), "obs": "real"}
    if kind == "event":
        return {"crit": rng.choice([["gt", 0.5], ["ge", 0.5], ["ne", 0.0]]), "initial": rng.choice(["inf", "zero", "nan"]),
                "obs": rng.choice(["bool", "grid"])}
    if kind == "ema":
        return {"alpha": rng.choice([0.0, 1.0, 0.5, 0.1, 0.3, 0.9]), "obs": rng.choice(["real", "bool"])}
    return {"obs": rng.choice(["real", "real", "bool"])}


def gen_obs(rng, mode, n):
    if mode == "bool":
        p = rng.choice([0.1, 0.3, 0.6])
        return [1.0 if rng.random() < p else 0.0 for _ in range(n)], True
    if mode == "grid":      # small dyadic rationals: sit exactly on the == / tolerance / criterion boundaries
        return [rng.choice([0.0, 0.5, 0.75, 1.0, 1.0, 1.25, 1.5, 2.0]) for _ in range(n)], False
    return [rng.choice([0.0, 0.5, 0.25, 1.3, -0.7, 0.1, 2.0, round(rng.uniform(-2, 2), 3)]) for _ in range(n)], False


def gen_time(rng, dt, N, tol):
    """a view time: on the grid, off the grid, on the tolerance boundary, or out of range"""
    k = rng.randint(0, max(N - 1, 0))
    c = rng.random()
    if c < 0.40:
        return k * dt
    if c < 0.70:
        if N == 1:
            return 0.0
        k = rng.randint(0, N - 2)
        return (k + rng.choice([0.5, 0.25, 0.75, 0.3, 0.9])) * dt
    if c < 0.78:
        return k * dt + rng.choice([tol / 2, -tol / 2, tol, -tol])      # within / on the tolerance
    if c < 0.86:
        t = k * dt + rng.choice([3 * tol, -3 * tol])                      # just off the grid
        return t
    if c < 0.93:
        return (N - 1) * dt + rng.choice([tol, 2 * tol, dt, 0.5 * dt])   # upper edge / beyond
    return rng.choice([-tol, -2 * tol, -dt])                              # lower edge / beyond


def gen_case(rng: random.Random, malformed: bool, kind=None, nops=None):
    kind = kind or rng.choice(KINDS)
    p = gen_params(rng, kind)
    dyadic = rng.random() < 0.6
    dt = rng.choice([1.0, 0.5, 0.25, 2.0]) if dyadic else rng.choice([1.3, 0.1, 0.7])
    durk = rng.choice([0, 0, 1, 2, 3, 3, 5, 2.5])
    duration = durk * dt
    inclusive = rng.random() < 0.4
    inplace = rng.random() < 0.5
    shape = rng.choice([[2], [3], [2, 2], [1], []]) if not malformed else rng.choice([[2], [3]])
    wrongof = lambda sh: {2: [3], 3: [2]}.get(sh[0] if sh else 0)  # noqa  (never broadcastable to sh)
    ops = []
    cur_dt = dt
    cur_shape = None     # shape the record currently holds (None: storage not created)
    nops = nops or rng.randint(4, 45)
    tolpool = [None, None, 2.0 ** -20, 0.0] if dyadic else [None, None, 1e-6]
    for _ in range(nops):
        k = rng.choice(["fwd"] * 12 + ["peek", "latest", "dump", "view_s", "view_s", "view_t", "view_t", "clear"] +
                       (["set_dt"] if rng.random() < 0.25 else []) + (["set_inplace"] if rng.random() < 0.2 else []))
        # N as the implementation will compute it is read back later; for generation use the real formula
        N = max(math.ceil(duration / cur_dt) + (1 if inclusive else 0), 1)
        if k == "fwd":
            base = cur_shape if cur_shape is not None else shape
            sh = wrongof(base) if (malformed and wrongof(base) and rng.random() < 0.12) else base
            if cur_shape is None:
                cur_shape = sh
            els, isb = gen_obs(rng, p["obs"], nel(sh))
            op = ["fwd", sh, els, isb]
            if kind in ("cnearest", "ccumulative"):
                op.append([rng.random() < 0.35 for _ in range(nel(sh))])
            ops.append(op)
        elif k in ("peek", "latest", "dump"):
            ops.append([k])
        elif k == "view_s":
            tol = rng.choice(tolpool)
            ops.append(["view_s", gen_time(rng, cur_dt, N, DEFAULT_TOL if tol is None else tol), tol])
        elif k == "view_t":
            tol = rng.choice(tolpool)
            D = rng.choice([1, 1, 2, 3])
            squeeze = D == 1 and rng.random() < 0.6
            oob = malformed and rng.random() < 0.3
            times = []
            vshape = cur_shape if cur_shape is not None else shape
            for _e in range(nel(vshape)):
                row = []
                for _d in range(D):
                    t = gen_time(rng, cur_dt, N, DEFAULT_TOL if tol is None else tol)
                    if not oob:      # keep valid: clip into the record's range
                        hi = (N - 1) * cur_dt
                        if t < 0 or t > hi:
                            t = rng.randint(0, N - 1) * cur_dt
                    row.append(t)
                times.append(row)
            ops.append(["view_t", times, vshape, squeeze, tol])
        elif k == "clear":
            ks = rng.random() < 0.5
            ops.append(["clear", ks])
            if not ks:
                cur_shape = None
        elif k == "set_dt":
            v = rng.choice([1.0, 0.5, 2.0, 0.25] if dyadic else [1.3, 0.1, 0.7, 1.0])
            if malformed and rng.random() < 0.3:
                v = rng.choice([0.0, -1.0])
            ops.append(["set_dt", v])
            if v > 0:
                cur_dt = v
        elif k == "set_inplace":
            ops.append(["set_inplace", rng.random() < 0.5])
    params = {a: b for a, b in p.items() if a != "obs"}
    return {"kind": kind, "dt": dt, "duration": duration, "inclusive": inclusive, "inplace": inplace,
            "params": params, "ops": ops}


def gen_cases(rng, n):
    out = []
    for i in range(n):
        out.append(gen_case(rng, malformed=(i % 5 == 4), kind=KINDS[i % len(KINDS)]))
    return out


def exhaustive_cases():
    """every boolean observation history of length <= 6 for the two boolean trace reducers (N = 3), with a dump and
    on/off-grid views at the end"""
    import itertools
    cases = []
    for kind in ("nearest", "cumulative"):
        for n in range(1, 7):
            for bits in itertools.product([0.0, 1.0], repeat=n):
                ops = [["fwd", [1], [b], True] for b in bits] + [["peek"], ["dump"], ["view_s", 1.0, None], ["view_s", 0.5, None]]
                cases.append({"kind": kind, "dt": 1.0, "duration": 2.0, "inclusive": True, "inplace": False,
                              "params": {"tau": 2.0, "amp": 1.5, "target": True, "tol": None}, "ops": ops})
    return cases


def gen_kernels(rng, n):
    ks = []
    names = ["trace_nearest", "trace_cumulative", "trace_nearest_scaled", "trace_cumulative_scaled",
             "trace_cumulative_value", "exponential_smoothing"]
    for i in range(n):
        fn = names[i % len(names)]
        k = {"fn": fn, "obs": rng.choice([0.0, 0.5, 0.75, 1.0, 1.25, 1.3, -0.7]),
             "trace": rng.choice([None, 0.0, 0.3, 1.7, -0.4]), "decay": rng.choice([0.5, 0.9, 0.6065306597126334]),
             "amp": rng.choice([1.0, -0.5, 0.1]), "target": 1.0, "tol": rng.choice([None, 0.25]),
             "scale": rng.choice([1.0, -1.3, 0.1]), "crit": rng.choice([["gt", 0.5], ["ge", 0.75], ["ne", 0.0]]),
             "alpha": rng.choice([0.0, 1.0, 0.3])}
        ks.append(k)
    return ks


# ------------------------------------------------------------------ rendering to Coq
fl = F.coq_float


def q_shape(sh):
    return F.coq_list([f"{int(s)}%nat" for s in sh])


def q_fl(xs):
    return F.coq_list([fl(float(x)) for x in xs])


def q_crit(c):
    return f"(crit_{c[0]} {fl(float(c[1]))})"


def q_optf(x):
    return "None" if x is None else f"(Some {fl(float(x))})"


def q_class(case):
    k, p = case["kind"], case["params"]
    if k in ("nearest", "cumulative"):
        return f"(k_{k} {fl(p['tau'])} {fl(float(p['amp']))} {fl(float(p['target']))} {q_optf(p['tol'])})"
    if k in ("snearest", "scumulative"):
        return f"(k_{k} {fl(p['tau'])} {fl(float(p['amp']))} {fl(float(p['scale']))} {q_crit(p['crit'])})"
    if k in ("cnearest", "ccumulative"):
        return f"(k_{k} {fl(p['tau'])} {fl(float(p['amp']))} {fl(float(p['scale']))})"
    if k == "event":
        return f"(k_event {q_crit(p['crit'])} {dict(inf='EInf', zero='EZero', nan='ENan')[p['initial']]})"
    if k == "pass":
        return "k_pass"
    if k == "ema":
        return f"(k_ema {fl(p['alpha'])})"
    return "k_ca"


def q_op(case, op):
    k = op[0]
    if k == "fwd":
        if case["kind"] in ("cnearest", "ccumulative"):
            els = F.coq_list([f"({fl(float(x))}, {F.coq_bool(c)})" for x, c in zip(op[2], op[4])])
        else:
            els = q_fl(op[2])
        return f"Fwd {q_shape(op[1])} {els}"
    if k in ("peek", "latest"):
        return "Peek"
    if k == "dump":
        return "Dump"
    if k == "view_s":
        return f"ViewS {fl(float(op[1]))} {fl(DEFAULT_TOL if op[2] is None else float(op[2]))}"
    if k == "view_t":
        return f"ViewT {F.coq_list([q_fl(r) for r in op[1]])} {fl(DEFAULT_TOL if op[4] is None else float(op[4]))}"
    if k == "clear":
        return f"Clear {F.coq_bool(op[1])}"
    if k == "set_dt":
        return f"SetDt {fl(float(op[1]))}"
    if k == "set_inplace":
        return f"SetInplace {F.coq_bool(op[1])}"
    raise AssertionError(k)


def q_case(case):
    ser = "ser_of" if case["kind"] == "event" else "ser_float"
    return (f"run_case {ser} {q_class(case)} {fl(case['dt'])} {fl(case['duration'])} {F.coq_bool(case['inclusive'])} "
            f"{F.coq_bool(case['inplace'])} {F.coq_list([q_op(case, o) for o in case['ops']])}")


def q_kernel(k):
    tr = q_optf(k["trace"])
    if k["fn"] in ("trace_nearest", "trace_cumulative"):
        t = f"{k['fn']} FN {fl(k['obs'])} {tr} {fl(k['decay'])} {fl(k['amp'])} {fl(k['target'])} {q_optf(k['tol'])}"
    elif k["fn"] in ("trace_nearest_scaled", "trace_cumulative_scaled"):
        t = f"{k['fn']} FN {fl(k['obs'])} {tr} {fl(k['decay'])} {fl(k['amp'])} {fl(k['scale'])} {q_crit(k['crit'])}"
    elif k["fn"] == "trace_cumulative_value":
        t = f"trace_cumulative_value FN {fl(k['obs'])} {tr} {fl(k['decay'])} {fl(k['scale'])}"
    else:
        t = f"exponential_smoothing FN {fl(k['obs'])} {tr} {fl(k['alpha'])}"
    return f"ser_float ({t})"


# ------------------------------------------------------------------ decoding / comparison
def is_ftriple(t):
    return isinstance(t, list) and len(t) == 3 and all(isinstance(x, int) for x in t)


def dec_model_val(t, event):
    """model element -> python float or None (None = the event reducer's non-finite initial value)"""
    if event:
        return None if t == [] else F.dec_float(t[0])
    return F.dec_float(t)


def dec_impl_val(t, event, initial):
    x = F.dec_float(t)
    if event and (math.isinf(x) or x != x):
        ok = (initial == "inf" and x == math.inf) or (initial == "nan" and x != x)
        return None if ok else ("bad-nonfinite", x)
    return x


def veq(a, b):
    if a is None or b is None:
        return a is None and b is None
    if isinstance(a, tuple) or isinstance(b, tuple):
        return False
    return F.close(a, b)


def lists_eq(a, b):
    if isinstance(a, list) and isinstance(b, list):
        return len(a) == len(b) and all(lists_eq(x, y) for x, y in zip(a, b))
    if isinstance(a, list) or isinstance(b, list):
        return False
    return veq(a, b)


def norm_out(o, dec):
    """[tag, ...] output of either side -> comparable structure with decoded values"""
    tag = o[0]
    if tag in (0, 1):
        return [tag]
    if tag == 3:
        return [3, o[1], [dec(v) for v in o[2]]]
    if tag == 4:
        return [4, o[1], [[dec(v) for v in row] for row in o[2]]]
    if tag == 5:
        return [5, [[dec(v) for v in row] for row in o[1]]]
    raise AssertionError(o)


def norm_step_impl(case, step):
    ev = case["kind"] == "event"
    ini = case["params"].get("initial")
    dec = lambda v: dec_impl_val(v, ev, ini)  # noqa
    (out, snap) = step
    if out[0] == 1:
        o = ["err", out[1]] + out[2:]
    else:
        o = ["ok", norm_out(out[1], dec)]
    n, ptr, init, stg, rdt, recdt, decay, count, inpl, dtype = snap
    if stg[0] == 2:
        stg = [2, stg[1], [[dec(v) for v in row] for row in stg[2]]]
    return {"out": o, "N": n, "ptr": ptr, "init": init, "st": stg, "dt": F.dec_float(rdt), "recdt": F.dec_float(recdt),
            "decay": None if decay is None else F.dec_float(decay), "count": count, "inplace": inpl, "dtype": dtype}


def norm_step_model(case, step):
    ev = case["kind"] == "event"
    dec = lambda v: dec_model_val(v, ev)  # noqa
    (out, snap) = step
    if out[0] == 1:
        o = ["err", out[1]]
    else:
        o = ["ok", norm_out(out[1], dec)]
    n, ptr, init, stg, rdt, decay, count, inpl = snap
    if stg[0] == 2:
        stg = [2, stg[1], [[dec(v) for v in row] for row in stg[2]]]
    return {"out": o, "N": n, "ptr": ptr, "init": init, "st": stg, "dt": F.dec_float(rdt), "decay": F.dec_float(decay),
            "count": count, "inplace": inpl}


def diff_step(case, si, sm):
    """None or a description of the first differing observable"""
    if si["out"][0] != sm["out"][0]:
        return ("outcome", si["out"], sm["out"])
    if si["out"][0] == "err":
        if si["out"][1] != sm["out"][1]:
            return ("exception class", si["out"], sm["out"])
    else:
        a, b = si["out"][1], sm["out"][1]
        if a[0] != b[0] or not lists_eq(a[1:], b[1:]):
            return ("return value", a, b)
    for key in ("N", "ptr", "init", "inplace"):
        if si[key] != sm[key]:
            return (key, si[key], sm[key])
    if si["st"][0] != sm["st"][0] or not lists_eq(si["st"][1:], sm["st"][1:]):
        return ("storage", si["st"], sm["st"])
    if not F.close(si["dt"], sm["dt"], 0, 0) or not F.close(si["recdt"], sm["dt"], 0, 0):
        return ("dt", si["dt"], si["recdt"], sm["dt"])
    if si["decay"] is not None and not F.close(si["decay"], sm["decay"]):
        return ("decay", si["decay"], sm["decay"])
    if si["count"] is not None and si["count"] != sm["count"]:
        return ("_count", si["count"], sm["count"])
    if si["dtype"] not in (None, "torch.float64"):
        return ("dtype", si["dtype"], "torch.float64")
    return None


# ------------------------------------------------------------------ direct oracle
def crit_py(c):
    op, v = c
    return {"gt": lambda x: x > v, "ge": lambda x: x >= v, "ne": lambda x: x != v, "lt": lambda x: x < v}[op]


class Oracle:
    """The property's own statement.  Keeps, per element, the list of (time stamp, observation[, condition]) folded
    since the last clear; the expected state is the CLOSED FORM over that list (never a recurrence), the expected
    record is the newest-first list of those expected states, one per step."""

    def __init__(self, case):
        self.c = case
        self.kind = case["kind"]
        self.p = case["params"]
        self.dt = case["dt"]
        self.N = None
        self.now = 0.0
        self.hist = None        # per element: list of (t, obs, cond)
        self.rec = None         # newest first: list of rows (list per element), length N once initialised
        self.initial = True
        self.shape = None
        self.unjudged = False   # set after an event the property does not speak about (failed forward of CA)

    # closed forms -------------------------------------------------
    def fill(self):
        if self.kind == "event":
            return {"inf": None, "nan": None, "zero": 0.0}[self.p["initial"]]
        return 0.0

    def matches(self, o, c):
        k, p = self.kind, self.p
        if k in ("nearest", "cumulative"):
            return (o == float(p["target"])) if p["tol"] is None else (abs(o - float(p["target"])) <= p["tol"])
        if k in ("snearest", "scumulative", "event"):
            return crit_py(p["crit"])(o)
        if k in ("cnearest", "ccumulative"):
            return bool(c)
        return True

    def closed(self, h):
        """expected present state from the list h of (t, obs, cond) (oldest first)"""
        k, p, now = self.kind, self.p, self.now
        if k == "cumulative":
            return sum(p["amp"] * math.exp(-(now - t) / p["tau"]) for (t, o, c) in h if self.matches(o, c))
        if k in ("scumulative", "ccumulative"):
            return sum((p["scale"] * o + p["amp"]) * math.exp(-(now - t) / p["tau"]) for (t, o, c) in h if self.matches(o, c))
        if k == "nearest":
            ev = [(t, o, c) for (t, o, c) in h if self.matches(o, c)]
            return 0.0 if not ev else p["amp"] * math.exp(-(now - ev[-1][0]) / p["tau"])
        if k in ("snearest", "cnearest"):
            ev = [(t, o, c) for (t, o, c) in h if self.matches(o, c)]
            return 0.0 if not ev else (p["scale"] * ev[-1][1] + p["amp"]) * math.exp(-(now - ev[-1][0]) / p["tau"])
        if k == "event":
            ev = [(t, o, c) for (t, o, c) in h if self.matches(o, c)]
            if ev:
                return now - ev[-1][0]
            ini = self.fill()
            return None if ini is None else now - h[0][0]       # 'zero': time since the first observation
        if k == "pass":
            return h[-1][1]
        if k == "ema":
            a = p["alpha"]
            n = len(h) - 1
            return (1 - a) ** n * h[0][1] + sum(a * (1 - a) ** (n - i) * h[i][1] for i in range(1, n + 1))
        if k == "ca":
            return sum(o for (t, o, c) in h) / len(h)
        raise AssertionError(k)

    def interp(self, prev, nxt, sample_at, dt):
        k = self.kind
        if k in TRACE_KINDS:
            return prev * math.exp(-sample_at / self.p["tau"])
        if k == "event":
            return None if prev is None else prev + sample_at
        if k == "pass":
            return prev
        return prev + (nxt - prev) * (sample_at / dt)

    # stepping ------------------------------------------------------
    def step(self, op, impl_step):
        """returns ('skip'|'ok'|'fail', detail).  impl_step: normalised implementation step."""
        k = op[0]
        raised = impl_step["out"][0] == "err"
        if k == "fwd":
            if (self.shape is not None and op[1] != self.shape):
                # malformed observation: the property does not speak about it; it must not be accepted silently
                if not raised:
                    return "fail", "observation of a different shape was accepted"
                if self.kind == "ca":
                    self.unjudged = True
                return "skip", None
            if raised:
                return "fail", f"forward raised {impl_step['out']}"
            self.N = impl_step["N"]
            if self.shape is None:
                self.shape = op[1]
            n = nel(op[1])
            conds = op[4] if len(op) > 4 else [None] * n
            if self.initial:
                self.hist = [[] for _ in range(n)]
                if self.rec is None:
                    self.rec = [[self.fill()] * n for _ in range(self.N)]
                self.initial = False
            self.now += self.dt
            for e in range(n):
                self.hist[e].append((self.now, float(op[2][e]), conds[e]))
            row = [self.closed(self.hist[e]) for e in range(n)]
            self.rec = ([row] + self.rec)[: self.N]
            return "ok", None
        if k == "clear":
            self.initial = True
            self.hist = None
            self.unjudged = False
            if op[1] and self.rec is not None:
                self.rec = [[self.fill()] * len(self.rec[0]) for _ in self.rec]
            else:
                self.rec = None
                self.shape = None
            return ("fail", "clear raised") if raised else ("ok", None)
        if k == "set_inplace":
            return ("fail", "inplace setter raised") if raised else ("ok", None)
        if k == "set_dt":
            if op[1] <= 0:
                return ("ok", None) if raised else ("fail", "non-positive dt accepted")
            if raised:
                return "fail", "dt setter raised"
            self.dt = op[1]
            newN = impl_step["N"]
            if self.rec is not None and newN != len(self.rec):
                # documented resize rule: newest kept, zero padded
                z = [0.0] * len(self.rec[0])
                self.rec = (self.rec + [list(z) for _ in range(newN)])[:newN]
            self.N = newN
            exp_decay = math.exp(-self.dt / self.p["tau"]) if self.kind in TRACE_KINDS else None
            if exp_decay is not None and not F.close(impl_step["decay"], exp_decay):
                return "fail", f"decay {impl_step['decay']} after dt change, expected exp(-dt/tau) = {exp_decay}"
            return "ok", None
        # observers
        out = impl_step["out"]
        if self.initial:
            if raised or out[1] != [0]:
                return "fail", f"{k} before the first observation returned {out} (expected None)"
            return "ok", None
        if self.unjudged:
            return "skip", None
        if k in ("peek", "latest"):
            exp = [3, self.shape, self.rec[0]]
        elif k == "dump":
            exp = [4, self.shape, self.rec]
        elif k in ("view_s", "view_t"):
            tol = DEFAULT_TOL if op[-1] is None else op[-1]
            dt, N = self.dt, len(self.rec)
            times = [[op[1]]] * len(self.rec[0]) if k == "view_s" else op[1]
            flat = [t for row in times for t in row]
            if any(t < -tol or t > dt * (N - 1) + tol for t in flat):
                return ("ok", None) if raised else ("fail", "out-of-range view time accepted")
            margin = 1e-9 * max(dt, 1.0)
            if any(abs(t + tol) < margin or abs(t - (dt * (N - 1) + tol)) < margin for t in flat):
                return "skip", None       # on the range boundary up to rounding: not judged
            cols = []
            for e, row in enumerate(times):
                col = []
                for t in row:
                    kk = round(t / dt)
                    d = abs(kk * dt - t)
                    if abs(d - tol) < 1e-9 * max(dt, 1.0) and tol > 0:
                        return "skip", None   # on the tolerance boundary up to rounding: not judged
                    if d <= tol:
                        col.append(self.rec[kk][e])
                    else:
                        lo = math.floor(t / dt)
                        hi = lo + 1
                        col.append(self.interp(self.rec[hi][e], self.rec[lo][e], hi * dt - t, dt))
                cols.append(col)
            exp = [3, self.shape, [c[0] for c in cols]] if k == "view_s" else [5, cols]
        else:
            raise AssertionError(k)
        if raised:
            return "fail", f"{k} raised {out}"
        got = out[1]
        if got[0] != exp[0] or not lists_eq(got[1:], exp[1:]):
            return "fail", {"expected": exp, "got": got}
        return "ok", None


def oracle_case(case, impl_steps):
    """None, or the first disagreement between the implementation and the closed forms"""
    o = Oracle(case)
    o.N = impl_steps[0]["N"]
    judged = 0
    for i, (op, st) in enumerate(zip(case["ops"], impl_steps[1:])):
        try:
            verdict, detail = o.step(op, st)
        except Exception as e:  # oracle must never crash the check silently
            return {"step": i, "op": op, "detail": f"oracle error {type(e).__name__}: {e}"}, judged
        if verdict == "fail":
            return {"step": i, "op": op, "detail": detail}, judged
        if verdict == "ok":
            judged += 1
    return None, judged


CA_SIG = {"kind": "ca", "what": "count_after_failed_forward"}


def ca_count_candidate(case, si):
    """finding candidate (error path, outside the property's quantifier): CAReducer._count advanced by a forward()
    that raised.  Returns the index of the first such step or None.  Proved on the model:
    C07/Findings.v ca_count_after_failed_forward_refuted."""
    if case["kind"] != "ca":
        return None
    accepted = 0
    for i, (op, st) in enumerate(zip(case["ops"], si[1:])):
        if op[0] == "clear":
            accepted = 0
        elif op[0] == "fwd" and st["out"][0] == "ok":
            accepted += 1
        if st["count"] is not None and st["count"] != accepted:
            return i
    return None


def signature(case, d):
    return {"kind": case["kind"], "op": d["op"][0]}


# ------------------------------------------------------------------ driver
def load_corpus():
    out = []
    for p in sorted(glob.glob(os.path.join(F.VERIF, "corpus", ID, "*.json"))):
        out.append(json.load(open(p)))
    return out


def is_nontrivial(case):
    kinds = {o[0] for o in case["ops"]}
    return sum(1 for o in case["ops"] if o[0] == "fwd") >= 2 and len(kinds) >= 2


def run(ctx):
    rng = random.Random(ctx["seed"])
    quick = ctx["tier"] == "quick"
    n = 300 if quick else 4000
    cases = load_corpus() + gen_cases(rng, n)
    exhaustive = False
    if not quick:
        cases += exhaustive_cases()
        exhaustive = True
    kernels = gen_kernels(rng, 120 if quick else 1200)
    impl = F.run_impl(IMPL, {"cases": cases, "kernels": kernels})
    # the executable instance is not imported by any obligation file: (re)build it against the kernels just translated
    with F.BuildLock():
        ok_exec, mk_out = F.make(["C07/ReducerExec.vo"], timeout=900)
    terms = [q_case(c) for c in cases] + [q_kernel(k) for k in kernels]
    model = F.eval_terms(ID, HEADER, terms, shard=40 if quick else 120)
    mismatches, oracle_fail = [], []
    judged_total = 0
    ok_traces = 0
    candidates = []
    ca_listed = any(k.get("property") == ID and k.get("match") == CA_SIG for k in F.load_known().get("findings", []))
    if not ok_exec:
        mismatches.append({"case": None, "detail": "executable model C07/ReducerExec.v does not build: " + mk_out[-1500:]})
    for c, ti, tm in zip(cases, impl["cases"], model[: len(cases)]):
        si = [norm_step_impl(c, s) for s in ti]
        # the direct oracle judges the implementation on its own (also when the model cannot be evaluated)
        d, judged = oracle_case(c, si)
        judged_total += judged
        if d is not None:
            oracle_fail.append({"case": c, "detail": d, "signature": signature(c, d)})
        j = ca_count_candidate(c, si)
        if j is not None:
            rec = {"case": dict(c, ops=c["ops"][: j + 2]),
                   "detail": {"step": j, "op": c["ops"][j][:2], "what": "CAReducer._count advanced by a forward() that raised; "
                              "later averages are not the mean of the folded observations"},
                   "signature": CA_SIG}
            if ca_listed and not any(f["signature"] == CA_SIG for f in oracle_fail):
                oracle_fail.append(rec)      # listed in known_findings.json: reported as KNOWN-FINDING by check.py
            elif len(candidates) < 3:
                candidates.append(rec)
        if isinstance(tm, Exception):
            if ok_exec:
                mismatches.append({"case": c, "detail": str(tm)})
            continue
        sm = [norm_step_model(c, s) for s in tm]
        bad = None
        if len(si) != len(sm):
            bad = {"detail": "trace lengths differ"}
        else:
            for j, (a, b) in enumerate(zip(si, sm)):
                d = diff_step(c, a, b)
                if d is not None:
                    bad = {"first_diff_step": j - 1, "op": c["ops"][j - 1] if j else "construction", "what": repr(d)[:1500]}
                    break
        if bad:
            mismatches.append({"case": c, "detail": bad})
        else:
            ok_traces += 1
    kern_bad = 0
    for k, ti, tm in zip(kernels, impl["kernels"], model[len(cases):]):
        if isinstance(tm, Exception):
            if ok_exec:
                mismatches.append({"case": {"kernel": k}, "detail": str(tm)})
            kern_bad += 1
            continue
        a, b = F.dec_float(ti), F.dec_float(tm)
        if not F.close(a, b):
            mismatches.append({"case": {"kernel": k}, "detail": {"impl": a, "generated_kernel": b}})
            kern_bad += 1
    dist = Counter(o[0] for c in cases for o in c["ops"])
    errs = Counter("err%d" % s[0][1] for tr in impl["cases"] for s in tr if s[0][0] == 1)
    return {
        "evaluations": len(cases) + len(kernels),
        "distinct_nontrivial": len({repr(c) for c in cases if is_nontrivial(c)}),
        "rule": "seeded operation sequences (4-45 ops: forward / peek / latest / dump / view with float and per-element "
                "tensor times on the grid, off the grid, on the tolerance and range boundaries / clear(keepshape) / dt setter / "
                "inplace setter) on all ten shipped fold reducers, dt dyadic and non-representable, durations 0..5 steps, "
                "5 shapes, boolean / boundary-grid / real observations; every 5th case from a malformed stream (wrong shapes, "
                "out-of-range times, non-positive dt); plus single calls of the six kernels; non-trivial = >=2 forwards and "
                ">=2 op kinds; distinct by full case text"
                + ("; plus every boolean history of length<=6 for the nearest and cumulative reducers" if exhaustive else ""),
        "op_distribution": dict(dist), "error_distribution": dict(errs),
        "kind_distribution": dict(Counter(c["kind"] for c in cases)),
        "kernel_calls": len(kernels), "kernel_mismatches": kern_bad,
        "oracle_judged_steps": judged_total,
        "finding_candidates_not_counted": candidates,
        "samples": cases[:2],
        "mismatches": mismatches, "oracle_failures": oracle_fail,
        "traces_validated_against_impl": ok_traces,
    }


def _oracle_on(case):
    t = F.run_impl(IMPL, {"cases": [case]})["cases"][0]
    si = [norm_step_impl(case, s) for s in t]
    return oracle_case(case, si)[0]


def minimise(case, rounds=12):
    """delta-debugging on the operation list against the implementation + oracle"""
    if "kernel" in case:
        return case, None
    ops = case["ops"]
    d0 = _oracle_on(case)
    if d0 is not None:
        ops = ops[: d0["step"] + 1]
    for _ in range(rounds):
        n = len(ops)
        if n <= 1:
            break
        chunk = max(1, n // 6)
        cands = []
        for a in range(0, n - 1, chunk):
            c = ops[:a] + ops[a + chunk:]
            if c:
                cands.append(c)
        tr = F.run_impl(IMPL, {"cases": [dict(case, ops=c) for c in cands]})["cases"]
        better = None
        for c, t in zip(cands, tr):
            cc = dict(case, ops=c)
            if oracle_case(cc, [norm_step_impl(cc, s) for s in t])[0] is not None:
                better = c
                break
        if better is None:
            if chunk == 1:
                break
            continue
        ops = better
    c = dict(case, ops=ops)
    d = _oracle_on(c)
    if d is not None:
        c = dict(c, ops=c["ops"][: d["step"] + 1])
    return c, d


def replay(case):
    if "kernel" in case:
        return False, "replay of kernel mismatches is not supported: re-run the check"
    d = _oracle_on(case)
    if d is None:
        return True, "replay: the implementation agrees with the closed forms on this case"
    return False, "replay: still failing: " + repr(d)[:1500]
