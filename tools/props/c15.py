"""C15 - trainer/monitor lifecycle: case generator, Coq rendering, correspondence, direct oracle."""
from __future__ import annotations
import copy, glob, itertools, json, os, random
from collections import Counter
import framework as F

ID = "C15"
GEN = []
LEVEL = "proof"
TECHNIQUE = ("Coq proof over a pure state-machine model of trainers, monitor pools, cell.monitors and the layers' "
             "forward-hook lists: invariants by induction over operation sequences, exact per-call effect of a layer "
             "call, frame (isolation) theorems, observation count = number of training steps over whole histories, "
             "witness theorems for the two unrepaired defects; model tied to the code by a differential "
             "correspondence check on seeded operation sequences")
LEVEL_TEXT = ("Machine-checked, axiom-free Coq theorems (21 obligations) about a state machine that mirrors pooling.py "
              "(alias search included), learn/base.py, Hook.register/deregister and the mode gate of infrastructure.py, "
              "Cell.local_remap / Layer._realign_attribute and the monitor sets of the shipped trainers. For EVERY operation "
              "sequence: hook lists are duplicate-free, hold exactly the registered monitors of the layer, prepended before "
              "appended (hooks_wf_always); pools reference live monitors on the right layer, every monitor has one owner, "
              "nothing is hooked while its trainer is in eval mode, every hooked monitor has a live training owner (run_TI, "
              "eval_trainer_records_nothing, registered_monitor_has_training_owner); a layer call gives each hooked monitor "
              "of a training layer exactly one observation and nothing else any (layer_step_exactly_once / at_most_once, "
              "only_layer_calls_record); a prepend=False reader sees same-step data of prepend=True monitors, also after "
              "eval()/train() (reads_current); operations of one trainer leave other trainers and their monitors untouched "
              "(other_trainers_untouched); listings are exact (register_cell_listing, del_cell_listing, del_monitor_listing, "
              "listings_consistent). For sequences that never delete an entry whose monitor is shared: trainer training => "
              "all its monitors hooked (run_Complete), one observation per training step (one_obs_per_training_step_partial), "
              "observation count over a history = number of training steps (obs_count_is_training_steps). The shared-delete "
              "case and the cross-registration read are refuted by witnesses (one_obs_del_cell_shared_refuted, "
              "elig_reads_own_traces_refuted, second_trainer_breaks_layer_call_refuted) replayed on the implementation.")
LEVEL_NOTE = ("Trusted: Coq kernel; hand-written model C15/Lifecycle.v validated only by the correspondence check "
              "(generator coverage); CPython reference counting / weakref / torch hook dispatch modelled by documented "
              "effect (the harness keeps only weak references; gc.collect() after drops and failures). PARTIAL: "
              "one_obs_per_training_step / obs_count are proved for `safe` sequences only (no del_cell/del_monitor of an "
              "entry whose monitor another entry shares) and for layer calls that do not raise - the full statements are "
              "false of the code (known findings del_cell_shared_monitor, monitor_name_rebinding); training_steps is "
              "evaluated on the model's own mode flags (set only by TrainerMode / LayerMode). NOT modelled: Input/Output "
              "monitors (hooked on submodules), eval_update=True monitors, layers or cells being garbage collected, "
              "hook order between two plain monitors (unobservable), the numeric content of observations (C07/C08).")
HEADER = ("From Coq Require Import List ZArith Bool.\nFrom Inferno Require Import Base.NumF C15.Lifecycle C15.LifecycleExec.\n"
          "Import ListNotations.\n")
IMPL = os.path.join(F.VERIF, "tools", "impl", "c15_impl.py")

# ------------------------------------------------------------------ API-level tables (specification side)
TYPES = [["STDP", False], ["STDP", True], ["MSTDP", False], ["MSTDPET"], ["Triplet", False], ["Triplet", True],
         ["Homeostasis"], ["DASTDP"], ["DAMSTDP"], ["Kernel", False], ["Kernel", True]]
# names the documentation of each trainer says it registers / consumes
TYPE_NAMES = {"STDP": [1, 2, 3, 4], "MSTDP": [1, 2, 3, 4], "MSTDPET": [1, 2, 3, 4, 5, 6], "Triplet": [7, 8, 2, 9, 10, 4],
              "Homeostasis": [11], "DASTDP": [2, 4], "DAMSTDP": [2, 4], "Kernel": [2, 4]}
TYPE_NEEDS = {"STDP": [1, 3, 2, 4], "MSTDP": [1, 3, 2, 4], "MSTDPET": [5, 6], "Triplet": [7, 9, 8, 10, 2, 4],
              "Homeostasis": [11], "DASTDP": [2, 4], "DAMSTDP": [2, 4], "Kernel": [2, 4]}
# MSTDPET's eligibility monitors read these monitors of the same cell by name
TYPE_READS = {"MSTDPET": {5: [3, 2], 6: [1, 4]}}

IDENTS = ["I_connection", "I_connection_", "I_neuron", "I_neuron_", "I_updater", "I_synapse", "I_precurrent",
          "I_prespike", "I_postvoltage", "I_postspike", "I_syncurrent", "I_synspike", "I_voltage", "I_spike",
          "I_monitors"]
ATTRS = [[2, 13], [9], [3, 13], [0, 11], [7], [5, 13], [2, 12], [8], [1, 11], []]


# ------------------------------------------------------------------ generator
def gen_world(rng):
    w = []
    for _ in range(rng.choice([1, 1, 1, 2])):
        nc = rng.choice([1, 2, 2])
        conns = [[rng.choice([1, 1, 1, 2]), rng.random() < 0.3] for _ in range(nc)]
        w.append([conns, rng.choice([1, 2, 2])])
    return w


def gen_spec(rng, malformed, tr_type):
    reads = None
    if rng.random() < 0.2:
        pool = TYPE_NAMES[tr_type[0]][:4] + [20, 21]
        reads = [[rng.choice(pool) for _ in range(rng.choice([1, 2]))], False]
        attr = [14]
    else:
        attr = rng.choice(ATTRS)
        if malformed and rng.random() < 0.2:
            attr = [40]
    foreign = [n for n in (1, 2, 3, 4) if n not in TYPE_NAMES[tr_type[0]]]
    name = rng.choice([20, 20, 21, 22] + (foreign if rng.random() < 0.4 else []))
    if name < 20 and reads is None and (attr == [] or attr == [40]):
        attr = rng.choice(ATTRS[:9])      # a monitor another trainer may read by name records tensor data
    if name < 20 and reads is not None:
        name = 20
    tags = rng.choice([[], [[8, 0]], [[8, 1]], [[8, 0], [9, 1]], [[9, 1], [8, 0]]])
    return {"name": name, "attr": attr, "unique": rng.random() < 0.25, "tags": tags,
            "prepend": rng.random() < 0.6 if reads is None else rng.random() < 0.15, "reads": reads}


def gen_case(rng: random.Random, malformed: bool):
    world = gen_world(rng)
    hand = [rng.random() < 0.4 for _ in world]       # layers built by hand through the public Layer API
    ntr = rng.choice([1, 1, 2, 2, 2, 3])
    trainers = [copy.deepcopy(rng.choice(TYPES)) for _ in range(ntr)]
    if ntr >= 2 and rng.random() < 0.35:           # the eligibility-trace trainer next to a plain one
        trainers[0] = ["MSTDPET"]
    cells = [[li, ci, ni] for li, (conns, nn) in enumerate(world) for ci in range(len(conns)) for ni in range(nn)]
    alive = [True] * ntr
    regd = [dict() for _ in range(ntr)]            # believed registrations (generator's guess only)
    ops = []
    nops = rng.randint(4, 30)
    focus = rng.choice(cells)                      # bias registrations towards cells that share components
    for _ in range(nops):
        live = [t for t in range(ntr) if alive[t]]
        if not live:
            break
        t = rng.choice(live)
        k = rng.choice(["reg"] * 7 + ["delcell"] * 2 + ["addmon"] * 3 + ["delmon"] * 2 + ["tmode"] * 3 +
                       ["lmode"] * 2 + ["lstep"] * 10 + ["tstep"] * 3 + ["clear"] + ["getcell"] * 2 +
                       (["drop"] if rng.random() < 0.15 else []))
        if k == "reg":
            free = [n for n in range(4) if n not in regd[t]]
            cn = rng.choice(free) if free and not (malformed and rng.random() < 0.2) else rng.randint(0, 3)
            if rng.random() < 0.6:
                near = [c for c in cells if c[0] == focus[0] and (c[1] == focus[1] or c[2] == focus[2])]
                cell = rng.choice(near)
            else:
                cell = rng.choice(cells)
            ops.append(["reg", t, cn, cell, rng.choice([0, 0, 0, 1, 10, 100, 1000, 1001])])
            regd[t].setdefault(cn, cell)
        elif k == "delcell":
            have = list(regd[t])
            cn = rng.choice(have) if have and not (malformed and rng.random() < 0.3) else rng.randint(0, 3)
            ops.append(["delcell", t, cn])
            regd[t].pop(cn, None)
        elif k == "addmon":
            have = list(regd[t])
            cn = rng.choice(have) if have and not (malformed and rng.random() < 0.2) else rng.randint(0, 3)
            ops.append(["addmon", t, cn, gen_spec(rng, malformed, trainers[t])])
        elif k == "delmon":
            have = list(regd[t])
            cn = rng.choice(have) if have else rng.randint(0, 3)
            mn = rng.choice(TYPE_NAMES[trainers[t][0]] + [20, 21]) if not (malformed and rng.random() < 0.3) else 22
            ops.append(["delmon", t, cn, mn])
        elif k == "getcell":
            c = rng.choice([x for r in regd for x in r.values()] or cells)
            ops.append(["getcell", c[0], c[1], c[2], rng.randrange(3)])
        elif k == "tmode":
            ops.append(["tmode", t, rng.random() < 0.55])
        elif k == "lmode":
            ops.append(["lmode", rng.randrange(len(world)), rng.random() < 0.55])
        elif k == "lstep":
            ops.append(["lstep", focus[0] if rng.random() < 0.7 else rng.randrange(len(world))])
        elif k == "tstep":
            ops.append(["tstep", t])
        elif k == "clear":
            ops.append(["clear", t])
        elif k == "drop":
            ops.append(["drop", t])
            alive[t] = False
    return {"world": world, "trainers": trainers, "ops": ops, "hand": hand}


def gen_cases(rng, n):
    return [gen_case(rng, malformed=(i % 4 == 3)) for i in range(n)]


def strip_case(rng: random.Random, ty):
    """the size-1 boundary of a monitor group: EVERY monitor of a still-registered cell is deleted one by one, then
    monitors are added to that cell again (same and new names), the layer steps, the cell is deleted and registered
    again.  One case per call for trainer type `ty`."""
    world = [[[[1, False], [1, rng.random() < 0.3]], 2]]
    trainers = [copy.deepcopy(ty)]
    if rng.random() < 0.3:
        trainers.append(copy.deepcopy(rng.choice(TYPES)))
    names = list(TYPE_NAMES[ty[0]])
    cell = rng.choice([[0, 0, 0], [0, 1, 1], [0, 1, 0]])
    ops = []
    if rng.random() < 0.3:
        ops.append(["tmode", 0, False])
    ops.append(["reg", 0, 0, cell, rng.choice([0, 1])])
    r = rng.random()
    if r < 0.35:                                   # a second cell: disjoint, or (rarely) sharing a component
        other = [0, 1 - cell[1], 1 - cell[2]] if rng.random() < 0.75 else [0, 1 - cell[1], cell[2]]
        ops.append(["reg", 0, 1, other, 0])
    if len(trainers) == 2 and rng.random() < 0.5:
        ops.append(["reg", 1, 0, [0, 1 - cell[1], 1 - cell[2]], 0])
    ops += [["lstep", 0]] * rng.randint(0, 2)
    order = names[:]
    rng.shuffle(order)
    for k, mn in enumerate(order):
        ops.append(["delmon", 0, 0, mn])
        if rng.random() < 0.15:
            ops.append(["lstep", 0])
    if rng.random() < 0.2:
        ops.append(["delmon", 0, 0, order[-1]])     # already gone: must be rejected
    tail = rng.choice(["readd", "readd", "readd", "delcell", "rereg"])
    if tail == "readd":
        readd = []
        for _ in range(rng.randint(1, 3)):
            nm = rng.choice([rng.choice(names), 20, 21])
            if nm >= 20 and rng.random() < 0.25:
                sp = {"name": nm, "attr": [14], "unique": False, "tags": [], "prepend": False,
                      "reads": [[rng.choice(names + [20])], False]}
            else:
                sp = {"name": nm, "attr": rng.choice(ATTRS[:9]), "unique": rng.random() < 0.3,
                      "tags": rng.choice([[], [[8, 0]], [[8, 1]]]), "prepend": rng.random() < 0.6, "reads": None}
            readd.append(["addmon", 0, 0, sp])
        ops += readd
        if rng.random() < 0.3:
            ops += [["tmode", 0, False], ["lstep", 0], ["tmode", 0, True]]
        ops += [["lstep", 0]] * rng.randint(1, 3)
        if rng.random() < 0.5:
            ops.append(["delmon", 0, 0, readd[-1][3]["name"]])
            ops.append(["addmon", 0, 0, copy.deepcopy(readd[0][3])])
            ops.append(["lstep", 0])
        if rng.random() < 0.3:
            ops.append(["clear", 0])
            ops.append(["lstep", 0])
    if tail == "rereg":
        ops.append(["reg", 0, 0, cell, 0])           # still registered: must be rejected with ValueError
    ops.append(["delcell", 0, 0])
    ops.append(["reg", 0, 0, rng.choice([cell, [0, 0, 1]]), rng.choice([0, 1])])
    ops += [["lstep", 0], ["lstep", 0]]
    if rng.random() < 0.5:
        ops.append(["tstep", 0])
    return {"world": world, "trainers": trainers, "ops": ops}


def strip_cases(rng, per_type):
    return [strip_case(rng, ty) for _ in range(per_type) for ty in TYPES]


def hyper_cases():
    """cells that share a neuron group or a connection, registered with per-cell hyperparameter overrides that differ
    in exactly ONE hyperparameter (each in turn), for every trainer configuration: monitors whose reducer configuration
    differs must be distinct objects, equal ones are pooled"""
    world = [[[[1, False], [1, False]], 2]]
    cases = []
    for ty in TYPES:
        for hp in (0, 1, 10, 100, 1000):
            for second in ([0, 1, 0], [0, 0, 1]):          # shares the neuron group / shares the connection
                for first_hp in ((0, hp), (hp, 0)):
                    ops = [["reg", 0, 0, [0, 0, 0], first_hp[0]], ["reg", 0, 1, second, first_hp[1]], ["lstep", 0],
                           ["lstep", 0], ["tmode", 0, False], ["tmode", 0, True], ["lstep", 0]]
                    cases.append({"world": world, "trainers": [copy.deepcopy(ty)], "ops": ops})
    return cases


def getcell_cases(rng, n):
    """layers built by hand (connection names differ from neuron names): registered cells are fetched again through
    add_cell / get_cell / layer.cells while training goes on"""
    cases = []
    for k in range(n):
        world = [[[[1, False], [1, rng.random() < 0.3]], 2]]
        ty = copy.deepcopy(TYPES[k % len(TYPES)])
        cell = rng.choice([[0, 0, 0], [0, 1, 1], [0, 0, 1], [0, 1, 0]])
        ops = [["reg", 0, 0, cell, 0], ["lstep", 0]]
        if rng.random() < 0.5:
            ops.append(["reg", 0, 1, [0, 1 - cell[1], 1 - cell[2]], 0])
        for _ in range(rng.randint(1, 3)):
            c = rng.choice([cell, cell, [0, 1 - cell[1], 1 - cell[2]], [0, cell[1], 1 - cell[2]]])
            ops.append(["getcell", c[0], c[1], c[2], rng.choice([0, 0, 1, 2])])
            ops.append(["lstep", 0])
        ops += [["tstep", 0], ["lstep", 0], ["delcell", 0, 0], ["getcell", 0, cell[1], cell[2], 0],
                ["reg", 0, 0, cell, 0], ["lstep", 0]]
        cases.append({"world": world, "trainers": [ty], "ops": ops, "hand": [k % 4 != 3]})
    return cases


def strip_exhaustive():
    """single-monitor trainer (LinearHomeostasis): every sequence of depth <= 4 over an 8-operation alphabet around the
    deletion of the cell's only monitor, closed by a layer call"""
    world = [[[[1, False], [1, False]], 1]]
    sp_new = {"name": 20, "attr": [2, 13], "unique": False, "tags": [], "prepend": True, "reads": None}
    sp_same = {"name": 11, "attr": [2, 13], "unique": False, "tags": [[8, 1]], "prepend": True, "reads": None}
    alpha = [["reg", 0, 0, [0, 0, 0], 0], ["delmon", 0, 0, 11], ["addmon", 0, 0, sp_new], ["addmon", 0, 0, sp_same],
             ["lstep", 0], ["delcell", 0, 0], ["delmon", 0, 0, 20], ["tmode", 0, False]]
    cases = []
    for d in range(1, 5):
        for seq in itertools.product(range(len(alpha)), repeat=d):
            if alpha[seq[0]][0] != "reg":
                continue
            ops = [copy.deepcopy(alpha[i]) for i in seq] + [["lstep", 0]]
            cases.append({"world": world, "trainers": [["Homeostasis"]], "ops": ops})
    return cases


def exhaustive_cases():
    """every sequence up to depth 3 over an 11-operation alphabet (both trainer pairings) and up to depth 4 over a
    7-operation alphabet (eligibility-trace trainer next to a plain one): one layer, two connections onto one
    neuron group, two trainers; a final layer call closes every sequence"""
    world = [[[[1, False], [1, False]], 1]]
    alpha = [["reg", 0, 0, [0, 0, 0], 0], ["reg", 0, 1, [0, 1, 0], 0], ["reg", 1, 0, [0, 0, 0], 0], ["delcell", 0, 0],
             ["tmode", 0, False], ["tmode", 0, True], ["lstep", 0], ["lmode", 0, False], ["delmon", 0, 1, 2],
             ["clear", 0], ["drop", 1]]
    cases = []
    for types, n_alpha, depth in (([["STDP", False], ["STDP", False]], 11, 3), ([["MSTDPET"], ["STDP", False]], 11, 3),
                                  ([["MSTDPET"], ["STDP", False]], 7, 4)):
        for d in range(1 if depth == 3 else 4, depth + 1):
            for seq in itertools.product(range(n_alpha), repeat=d):
                ops = [copy.deepcopy(alpha[i]) for i in seq] + [["lstep", 0]]
                cases.append({"world": world, "trainers": types, "ops": ops})
    return cases


# ------------------------------------------------------------------ rendering to Coq
def q_nat(n):
    return str(int(n))


def q_cell(c):
    return f"({c[0]}, {c[1]}, {c[2]})"


def q_ident(i):
    return IDENTS[i] if i < len(IDENTS) else f"(I_other {i})"


def q_spec(sp):
    reads = "None" if sp["reads"] is None else \
        f"(Some ({F.coq_list([q_nat(n) for n in sp['reads'][0]])}, {F.coq_bool(sp['reads'][1])}))"
    tags = F.coq_list([f"({k}, ({v})%Z)" for k, v in sp["tags"]])
    return (f"(mkSpec {sp['name']} {F.coq_list([q_ident(i) for i in sp['attr']])} {F.coq_bool(sp['unique'])} "
            f"{tags} {F.coq_bool(sp['prepend'])} {reads})")


def q_type(ty):
    k = ty[0]
    if k in ("STDP", "MSTDP"):
        return f"(TSTDP {F.coq_bool(ty[1])})"
    if k == "MSTDPET":
        return "TMSTDPET"
    if k == "Triplet":
        return f"(TTriplet {F.coq_bool(ty[1])})"
    if k == "Homeostasis":
        return "THomeostasis"
    if k in ("DASTDP", "DAMSTDP"):
        return "TDelayAdjusted"
    if k == "Kernel":
        return f"(TKernel {F.coq_bool(ty[1])})"
    raise AssertionError(k)


def q_op(op):
    k = op[0]
    if k == "reg":
        return f"RegisterCell {op[1]} {op[2]} {q_cell(op[3])} ({op[4]})%Z"
    if k == "delcell":
        return f"DelCell {op[1]} {op[2]}"
    if k == "addmon":
        return f"AddMonitor {op[1]} {op[2]} {q_spec(op[3])}"
    if k == "delmon":
        return f"DelMonitor {op[1]} {op[2]} {op[3]}"
    if k == "tmode":
        return f"TrainerMode {op[1]} {F.coq_bool(op[2])}"
    if k == "lmode":
        return f"LayerMode {op[1]} {F.coq_bool(op[2])}"
    if k == "lstep":
        return f"LayerStep {op[1]}"
    if k == "tstep":
        return f"TrainerStep {op[1]}"
    if k == "clear":
        return f"Clear {op[1]}"
    if k == "drop":
        return f"DropTrainer {op[1]}"
    if k == "getcell":
        return "Clear 99"        # fetching an existing cell again has NO effect in the model (an operation on a
                                 # trainer that does not exist leaves the state unchanged; its error code is ignored)
    raise AssertionError(k)


def q_world(w):
    return F.coq_list([f"({F.coq_list([f'(({dt})%Z, {F.coq_bool(dl)})' for dt, dl in conns])}, {nn})" for conns, nn in w])


def q_case(case):
    return (f"run_case {q_world(case['world'])} {F.coq_list([q_type(t) for t in case['trainers']])} "
            f"{F.coq_list([q_op(o) for o in case['ops']])}")


# ------------------------------------------------------------------ correspondence
def canon_model(tm, case):
    """model tree -> per-op [errclass, layers, trainers, mons, cmon, acc]"""
    out = []
    for (e, st), op in zip(tm, case["ops"]):
        lays, trs, ms, cm, acc = st
        trs2 = []
        for t in trs:
            if not t:
                trs2.append([])
            else:
                trs2.append([t[0], [[a, list(c)] for a, c in t[1]], [list(x) for x in t[2]], list(t[3])])
        ms2 = [[m[0], m[1], m[2], [[o[0], [[r[0], list(r[1])] for r in o[1]]] for o in m[3]]] for m in ms]
        out.append([err_class(e, op, True), [list(l) for l in lays], trs2, ms2, [[list(x) for x in c] for c in cm], list(acc)])
    return out


def err_class(code, op, model=False):
    if op[0] in ("lstep", "tstep"):
        return 1 if code else 0
    if op[0] == "getcell" and model:
        return 0
    return code


def canon_impl(ti, case):
    out = []
    for (code, snap, _msg, *_rest), op in zip(ti, case["ops"]):
        lays, trs, ms, cm, acc = snap
        out.append([err_class(code, op), lays, trs, ms, cm, acc])
    return out


def acc_deltas(seq):
    prev = None
    res = []
    for x in seq:
        a = x[5]
        res.append([int(b > p) for b, p in zip(a, prev)] if prev is not None else [int(b > 0) for b in a])
        prev = a
    return res


def compare(cm, ci):
    """first difference between model and implementation traces, or None"""
    dm, di = acc_deltas(cm), acc_deltas(ci)
    names = ["error", "layers", "trainers", "monitors", "cell.monitors"]
    for j, (a, b) in enumerate(zip(cm, ci)):
        for f in range(5):
            if a[f] != b[f]:
                return {"first_diff_step": j, "field": names[f], "model": a[f], "impl": b[f]}
        if dm[j] != di[j]:
            return {"first_diff_step": j, "field": "accumulators grew", "model": dm[j], "impl": di[j]}
    if len(cm) != len(ci):
        return {"first_diff_step": min(len(cm), len(ci)), "field": "length"}
    return None


# ------------------------------------------------------------------ direct oracle
class Spec:
    """The property's own, pool-free description: which (trainer, cell name, monitor name) entries exist, and for
    each the layer steps it must have recorded: exactly the steps of its cell's layer taken after the entry was
    added while its trainer and that layer were both in training mode."""

    def __init__(self, case):
        self.case = case
        nt = len(case["trainers"])
        self.alive = [True] * nt
        self.ttrain = [True] * nt
        self.ltrain = [True] * len(case["world"])
        self.steps = [0] * len(case["world"])
        self.cells = [dict() for _ in range(nt)]            # cn -> cell
        self.entries = [dict() for _ in range(nt)]          # (cn, mn) -> {"since": step, "exp": [...], "data": bool}

    def add_entry(self, t, cn, mn):
        cell = self.cells[t][cn]
        self.entries[t].setdefault((cn, mn), {"since": self.steps[cell[0]], "exp": []})

    def apply(self, op, raised):
        k = op[0]
        if k == "lstep":
            li = op[1]
            self.steps[li] += 1
            if self.ltrain[li]:
                for t in range(len(self.alive)):
                    if self.alive[t] and self.ttrain[t]:
                        for (cn, mn), e in self.entries[t].items():
                            if self.cells[t][cn][0] == li:
                                e["exp"].append(self.steps[li])
            return
        if raised:
            if k == "addmon" and op[3]["unique"]:
                self.entries[op[1]].pop((op[2], op[3]["name"]), None)
            return
        if k == "reg":
            _, t, cn, cell, _hp = op
            self.cells[t][cn] = cell
            for mn in TYPE_NAMES[self.case["trainers"][t][0]]:
                self.add_entry(t, cn, mn)
        elif k == "delcell":
            _, t, cn = op
            self.cells[t].pop(cn, None)
            for key in [key for key in self.entries[t] if key[0] == cn]:
                del self.entries[t][key]
        elif k == "addmon":
            _, t, cn, sp = op
            if sp["unique"]:
                self.entries[t].pop((cn, sp["name"]), None)
            self.add_entry(t, cn, sp["name"])
        elif k == "delmon":
            self.entries[op[1]].pop((op[2], op[3]), None)
        elif k == "tmode":
            self.ttrain[op[1]] = bool(op[2])
        elif k == "lmode":
            self.ltrain[op[1]] = bool(op[2])
        elif k == "drop":
            t = op[1]
            self.alive[t] = False
            self.cells[t] = {}
            self.entries[t] = {}


def oracle_case(case, ti):
    """evaluate the property on the implementation's trace.  Returns a list of failures (at most one per kind)."""
    sp = Spec(case)
    fails = {}
    shared_deleted = set()       # monitors that lost an entry through del_cell/del_monitor while another entry kept them
    prev_named = [[] for _ in case["trainers"]]
    rebound_cells = set()        # cells on which two different trainers have bound monitor names

    def fail(kind, step, detail):
        fails.setdefault(kind, {"detail": dict(detail, step=step, op=case["ops"][step]), "signature": {"kind": kind}})

    binders = {}                 # cell -> set of trainers that registered it / added monitors on it
    for j, (op, (code, snap, msg, *rest)) in enumerate(zip(case["ops"], ti)):
        raised = code != 0
        if op[0] == "getcell" and raised:
            fail("cell_replaced", j, {"what": "fetching an existing cell again did not return the same Cell", "message": msg})
        if rest and rest[0]:
            fail("monitor_config", j, {"what": "a cell's trace monitor does not carry that cell's hyperparameters "
                                               "[trainer, cell, monitor, (|amplitude|, tc) found, expected]", "bad": rest[0][:4]})
        lays, trs, ms, cm, acc = snap
        # --- bookkeeping that needs the state before the op
        if op[0] in ("delcell", "delmon") and not raised:
            t = op[1]
            gone = [e for e in prev_named[t] if e[0] == op[2] and (op[0] == "delcell" or e[1] == op[3])]
            kept = [e for e in prev_named[t] if e not in gone]
            for g in gone:
                if any(kk[2] == g[2] for kk in kept):
                    shared_deleted.add(g[2])
        # --- operations on what is (not) registered are accepted (rejected): the trainer-level error contract
        exp_ok = expected_ok(sp, op)
        if exp_ok is True and raised:
            fail("op_raised_on_registered_cell", j, {"what": "a valid operation on a registered cell raised", "message": msg})
        elif exp_ok is False and not raised:
            fail("op_accepted_on_unregistered", j, {"what": "an operation on something that is not registered did not raise"})
        sp.apply(op, raised)
        if op[0] == "reg" and not raised:
            binders.setdefault(tuple(op[3]), set()).add((op[1], op[2]))
        if op[0] == "addmon" and not raised and op[2] in sp.cells[op[1]]:
            binders.setdefault(tuple(sp.cells[op[1]][op[2]]), set()).add((op[1], op[2], "user"))
        mon = {m[0]: m for m in ms}
        owner = {}
        for t, tr in enumerate(trs):
            if tr:
                for cn, mn, num in tr[2]:
                    owner.setdefault(num, set()).add(t)
        multi = {c for c, b in binders.items() if len(b) >= 2}
        # --- a layer call must not fail because of monitors
        if op[0] == "lstep" and raised:
            li = op[1]
            stale = any(e[2] in shared_deleted and sp.cells[t].get(e[0], [None])[0] == li
                        for t in range(len(prev_named)) if sp.alive[t] for e in prev_named[t])
            if any(c[0] == li for c in multi):
                fail("monitor_name_rebinding", j, {"what": "layer call raised", "message": msg})
            elif stale:      # a reader was handed the (never filled / stale) data of a monitor deregistered by a shared delete
                fail("del_cell_shared_monitor", j, {"what": "layer call raised", "message": msg})
            elif not user_reads_unbound(case, j):
                fail("layer_step_raised", j, {"what": "layer call raised", "message": msg})
            break        # hooks after the failing one did not run: what follows is not judged
        # --- listings
        for t, tr in enumerate(trs):
            if not sp.alive[t]:
                continue
            if not tr:
                fail("listing", j, {"what": "trainer vanished", "trainer": t})
                continue
            if sorted((cn, mn) for cn, mn, _ in tr[2]) != sorted(sp.entries[t]):
                fail("listing", j, {"what": "named_monitors differs from what is registered", "trainer": t,
                                    "listed": sorted((cn, mn) for cn, mn, _ in tr[2]), "registered": sorted(sp.entries[t])})
            if sorted((cn, tuple(c)) for cn, c in tr[1]) != sorted((cn, tuple(c)) for cn, c in sp.cells[t].items()):
                fail("listing", j, {"what": "cells differ from what is registered", "trainer": t})
            if sorted(set(num for _, _, num in tr[2])) != sorted(tr[3]) or len(set(tr[3])) != len(tr[3]):
                fail("listing", j, {"what": "monitors is not the duplicate-free list of named_monitors", "trainer": t})
            # --- one observation per training step, none otherwise
            for cn, mn, num in tr[2]:
                e = sp.entries[t].get((cn, mn))
                if e is None or num not in mon:
                    continue
                got = [o[0] for o in mon[num][3] if o[0] > e["since"]]
                if got != e["exp"]:
                    kind = "del_cell_shared_monitor" if num in shared_deleted else "observation_count"
                    fail(kind, j, {"what": "recorded steps differ from the training steps", "trainer": t, "cell": cn,
                                   "monitor": mn, "recorded": got, "expected": e["exp"]})
                # --- monitors that read other monitors by name read this trainer's own, current ones
                rd = TYPE_READS.get(case["trainers"][t][0], {}).get(mn)
                if rd is not None and mon[num][3] and op[0] == "lstep" and sp.cells[t][cn][0] == op[1] \
                        and mon[num][3][-1][0] == sp.steps[op[1]]:
                    stamp, reads = mon[num][3][-1]
                    own = {m2: n2 for c2, m2, n2 in tr[2] if c2 == cn}
                    for name, (rn, last) in zip(rd, reads):
                        if name not in own:
                            continue
                        cell = tuple(sp.cells[t][cn])
                        if rn != own[name]:
                            # bound to a monitor of another registration of the same cell object?
                            other = any(n3 == rn and (t3, c3) != (t, cn) and tuple(sp.cells[t3].get(c3, ())) == cell
                                        for t3, tr3 in enumerate(trs) if tr3 for c3, _m3, n3 in tr3[2])
                            kind = "monitor_name_rebinding" if (other and cell in multi) else "foreign_read"
                            fail(kind, j, {"what": "reads a monitor that is not this trainer's", "trainer": t, "cell": cn,
                                           "monitor": mn, "name": name, "bound_to": rn, "own": own[name]})
                        elif last != [stamp]:
                            kind = "del_cell_shared_monitor" if rn in shared_deleted else "stale_read"
                            fail(kind, j, {"what": "reads data that is not of the current step", "trainer": t, "cell": cn,
                                           "monitor": mn, "name": name, "step_of_data": last, "current": stamp})
            # --- registered <=> trainer training
            for cn, mn, num in tr[2]:
                if num in mon and bool(mon[num][1]) != sp.ttrain[t]:
                    kind = "del_cell_shared_monitor" if num in shared_deleted else "registration_state"
                    fail(kind, j, {"what": "monitor.registered differs from trainer.training", "trainer": t, "cell": cn,
                                   "monitor": mn, "registered": mon[num][1], "training": sp.ttrain[t]})
        # --- nothing outside the live trainers' pools is still hooked
        if sum(l[2] for l in lays) != sum(1 for m in ms if m[1]):
            fail("dangling_hook", j, {"what": "forward hooks that belong to no live monitor",
                                      "hooks": [l[2] for l in lays], "registered_monitors": sum(1 for m in ms if m[1])})
        for t, tr in enumerate(trs):
            if tr:
                prev_named[t] = [list(x) for x in tr[2]]
    return list(fails.values())


CELL_ATTR_HEADS = {0, 1, 2, 3, 4, 5, 6, 7, 8, 9, 14}


def expected_ok(sp, op):
    """True: must succeed; False: must raise; None: not judged.  From the documented preconditions only."""
    k = op[0]
    if k not in ("reg", "delcell", "addmon", "delmon"):
        return None
    t = op[1]
    if t >= len(sp.alive) or not sp.alive[t]:
        return None
    if k == "reg":
        return op[2] not in sp.cells[t]
    if k == "delcell":
        return op[2] in sp.cells[t]
    if k == "addmon":
        if op[2] not in sp.cells[t]:
            return False
        attr = op[3]["attr"]
        if (op[2], op[3]["name"]) in sp.entries[t] and not op[3]["unique"]:
            return True                      # the existing monitor is returned, the attribute is not looked at
        return (not attr) or attr[0] in CELL_ATTR_HEADS
    if k == "delmon":
        return (op[2], op[3]) in sp.entries[t]
    return None


def user_reads_unbound(case, j):
    """a user-added reading monitor whose names the same cell may not (any longer) have: user error, not judged"""
    for op in case["ops"][:j]:
        if op[0] == "addmon" and op[3]["reads"] is not None:
            return True
        if op[0] == "delmon" and any(o[0] == "reg" and case["trainers"][o[1]][0] == "MSTDPET" for o in case["ops"][:j]):
            return True
    return False


def is_nontrivial(case):
    kinds = {o[0] for o in case["ops"]}
    return "reg" in kinds and "lstep" in kinds and len(kinds) >= 3


def load_corpus():
    out = []
    for p in sorted(glob.glob(os.path.join(F.VERIF, "corpus", ID, "*.json"))):
        out.append(json.load(open(p)))
    return out


def run(ctx):
    rng = random.Random(ctx["seed"])
    n = 300 if ctx["tier"] == "quick" else 3000
    cases = load_corpus() + witness_cases() + gen_cases(rng, n)
    cases += strip_cases(rng, 4 if ctx["tier"] == "quick" else 30)
    cases += getcell_cases(rng, 22 if ctx["tier"] == "quick" else 220)
    cases += hyper_cases()
    exhaustive = False
    if ctx["tier"] == "thorough":
        cases += exhaustive_cases() + strip_exhaustive()
        exhaustive = True
    impl = run_impl_parallel(cases)
    model = F.eval_terms(ID, HEADER, [q_case(c) for c in cases], shard=max(20, len(cases) // 16 + 1))
    mismatches, oracle_fail = [], []
    kinds = Counter()
    for c, ti, tm in zip(cases, impl, model):
        if isinstance(tm, Exception):
            mismatches.append({"case": c, "detail": str(tm)})
        else:
            d = compare(canon_model(tm, c), canon_impl(ti, c))
            if d is not None:
                d["op"] = c["ops"][d["first_diff_step"]] if d["first_diff_step"] < len(c["ops"]) else None
                mismatches.append({"case": c, "detail": d})
        for f in oracle_case(c, ti):
            kinds[f["signature"]["kind"]] += 1
            oracle_fail.append({"case": c, "detail": f["detail"], "signature": f["signature"]})
    # keep the report small: one representative (the shortest case) per failure kind
    rep = {}
    for f in oracle_fail:
        k = f["signature"]["kind"]
        if k not in rep or len(f["case"]["ops"]) < len(rep[k]["case"]["ops"]):
            rep[k] = f
    dist = Counter(o[0] for c in cases for o in c["ops"])
    errs = Counter(f"{o[0]}:err{r[0]}" for c, tr in zip(cases, impl) for o, r in zip(c["ops"], tr) if r[0])
    return {
        "evaluations": len(cases),
        "distinct_nontrivial": len({json.dumps(c, sort_keys=True) for c in cases if is_nontrivial(c)}),
        "rule": "seeded random lifecycle sequences (4-30 ops over register_cell / del_cell / add_monitor / del_monitor / "
                "trainer.train|eval / layer.train|eval / layer call / trainer call / clear / drop+collect; 1-3 trainers of "
                "11 shipped configurations; 1-2 Biclique layers with 1-2 connections x 1-2 neuron groups, so cells share "
                "neurons and connections; every 4th case from a malformed stream); plus a 'strip' stream for every one of "
                "the 11 trainer configurations (all monitors of a registered cell deleted one by one, monitors re-added "
                "under the same and new names, layer calls, del_cell, register again), a 'hyper' stream (two cells sharing a "
                "neuron group or a connection whose per-cell overrides differ in exactly one hyperparameter) and a "
                "'getcell' stream (hand-built Layer subclass, cells fetched again via add_cell / get_cell / layer.cells); "
                "non-trivial = registers, steps and "
                ">=3 op kinds; distinct by full case text"
                + ("; plus every sequence of depth<=3 over an 11-op alphabet for two trainer pairings and of depth 4 over a "
                   "7-op alphabet for MSTDPET next to STDP; every depth<=4 sequence over an 8-op alphabet around deleting a "
                   "single-monitor (LinearHomeostasis) cell's only monitor" if exhaustive else ""),
        "op_distribution": dict(dist), "error_distribution": dict(errs),
        "trainer_type_distribution": dict(Counter(t[0] for c in cases for t in c["trainers"])),
        "oracle_failure_kinds": dict(kinds),
        "samples": cases[2:4],
        "mismatches": mismatches, "oracle_failures": list(rep.values()),
        "traces_validated_against_impl": len(cases) - len(mismatches),
    }


def run_impl_parallel(cases, chunks=8):
    """the implementation side in several fresh interpreters at once"""
    import concurrent.futures as cf
    k = max(1, (len(cases) + chunks - 1) // chunks)
    parts = [cases[i:i + k] for i in range(0, len(cases), k)]
    with cf.ThreadPoolExecutor(len(parts)) as ex:
        outs = list(ex.map(lambda p: F.run_impl(IMPL, {"cases": p}), parts))
    return [t for o in outs for t in o]


def witness_cases():
    """the witnesses of the two `_refuted` theorems (run first, on the real implementation)"""
    w = [[[[1, False], [1, False]], 1]]
    return [
        {"world": w, "trainers": [["STDP", False]],
         "ops": [["reg", 0, 0, [0, 0, 0], 0], ["reg", 0, 1, [0, 1, 0], 0], ["lstep", 0], ["delcell", 0, 0], ["lstep", 0]]},
        {"world": w, "trainers": [["MSTDPET"], ["STDP", False]],
         "ops": [["reg", 0, 0, [0, 0, 0], 0], ["tmode", 1, False], ["reg", 1, 0, [0, 0, 0], 0], ["lstep", 0]]},
    ]


KNOWN_KINDS = ("del_cell_shared_monitor", "monitor_name_rebinding")


def _fails_with(case, kind):
    t = F.run_impl(IMPL, {"cases": [case]})[0]
    fs = oracle_case(case, t)
    if kind is None:        # prefer a failure that is not an instance of a listed finding
        fs = sorted(fs, key=lambda f: f["signature"]["kind"] in KNOWN_KINDS)
    for f in fs:
        if kind is None or f["signature"]["kind"] == kind:
            return f
    return None


def minimise(case, rounds=12):
    """delta-debugging on the operation list against the implementation + oracle"""
    f0 = _fails_with(case, None)
    if f0 is None:
        return case, None
    kind = f0["signature"]["kind"]
    ops = case["ops"][: f0["detail"]["step"] + 1]
    for _ in range(rounds):
        n = len(ops)
        if n <= 1:
            break
        cands = [ops[:a] + ops[a + 1:] for a in range(n)]
        tr = F.run_impl(IMPL, {"cases": [dict(case, ops=c) for c in cands]})
        better = None
        for c, t in zip(cands, tr):
            if any(f["signature"]["kind"] == kind for f in oracle_case(dict(case, ops=c), t)):
                better = c
                break
        if better is None:
            break
        ops = better
    c = dict(case, ops=ops)
    f = _fails_with(c, kind)
    return c, (f["detail"] if f else None)


def replay(case):
    t = F.run_impl(IMPL, {"cases": [case]})[0]
    fs = oracle_case(case, t)
    if not fs:
        return True, "replay: the implementation satisfies the lifecycle property on this case"
    return False, "replay: still failing: " + repr([(f["signature"], f["detail"]) for f in fs])[:1800]
