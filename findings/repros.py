"""Minimal reproductions of the genuine defects found on the pinned tree (DESIGN.md section 8).

usage: /venv/bin/python findings/repros.py <name>|all     (run with PYTHONPATH=/repo, NOT with cwd=/repo/inferno)
exit status 1 and a line "DEFECT <name>: ..." when the defect is present, 0 when it is absent.
Each function uses only the public API and states the property it contradicts.
"""
import sys, math
sys.path.insert(0, "/repo")
import torch
torch.set_default_dtype(torch.float64)
import inferno
from inferno import neural, learn, observe, functional, stats
from inferno.core.infrastructure import Module, RecordTensor

KEEP = []


def rt(N, value=None):
    m = Module(); KEEP.append(m)
    RecordTensor.create(m, "rec", 1.0, float(N - 1), value, inclusive=True)
    return m.rec


def c01_push_dtype():
    """C01: storage auto-created by the first push adopts the observation's data type."""
    r = rt(3, None)
    r.push(torch.tensor([0.5, 1.5]))
    got = r.peek()
    ok = got.dtype == torch.float64 and got.tolist() == [0.5, 1.5]
    return ok, f"first push of [0.5, 1.5] into None storage reads back {got.tolist()} ({got.dtype})"


def c01_readrange_full():
    """C01: ranges that span the whole record (length == recordsz) with a scalar offset."""
    r = rt(3, torch.zeros(2))
    for k in range(1, 4):
        r.push(torch.tensor([float(k), 10.0 * k]))
    try:
        got = r.readrange(3, 1)
        ok = got.tolist() == [[1.0, 2.0, 3.0], [10.0, 20.0, 30.0]]
        return ok, f"readrange(3, 1) -> {got.tolist()}"
    except Exception as e:
        return False, f"readrange(3, 1) raised {type(e).__name__}: {e}"


def c04_spike_at_swapped():
    """C04: spike queries beyond the supported delay return the configured out-of-bounds value."""
    syn = neural.DeltaCurrent((2,), 1.0, spike_charge=1.0, delay=2.0, interp_tol=0.25, spike_overbound=False)
    for _ in range(3):
        syn(torch.ones(1, 2).bool())
    try:
        got = syn.spike_at(torch.full((1, 2, 1), 5.0))
        ok = got.tolist() == [[[False], [False]]]
        return ok, f"spike_at(5.0) beyond delay 2.0 with overbound False -> {got.tolist()}"
    except Exception as e:
        return False, f"spike_at raised {type(e).__name__}: {e}"


def c04_undelayed_selector_axis():
    """C04: querying currents/spikes at a delay (max delay 0 included) with per-synapse selectors B x N x D."""
    msgs = []
    s = neural.DeltaCurrent((2,), 1.0, spike_charge=1.0, delay=0.0, batch_size=1, current_overbound=7.5)
    s(torch.tensor([[True, False]]))
    try:
        got = s.current_at(torch.zeros(1, 2, 2)).tolist()
        if got != [[[1.0, 1.0], [0.0, 0.0]]]:
            msgs.append(f"DeltaCurrent delay 0: current_at(zeros(1,2,2)) = {got}, expected [[[1,1],[0,0]]]")
    except Exception as e:
        msgs.append(f"DeltaCurrent current_at raised {type(e).__name__}")
    d = neural.DoubleExponentialCurrent((3,), 1.0, spike_charge=2.0, tc_decay=8.0, tc_rise=2.0, delay=0.0, batch_size=2)
    d(torch.tensor([[1, 0, 1], [0, 1, 1]]).bool())
    for nm in ("current_at", "spike_at"):
        try:
            r = getattr(d, nm)(torch.zeros(2, 3, 2))
            if tuple(r.shape) != (2, 3, 2):
                msgs.append(f"DoubleExponentialCurrent.{nm} returned shape {tuple(r.shape)}, documented (2, 3, 2)")
        except Exception as e:
            msgs.append(f"DoubleExponentialCurrent.{nm}(zeros(2,3,2)) raised {type(e).__name__}")
    return not msgs, "; ".join(msgs) or "undelayed synapses answer B x N x D selectors with B x N x D values"


def c05_conv_presyn_receptive():
    """C05: the pre/post receptive views broadcast against the weight as documented."""
    c = neural.Conv2D(4, 4, 2, 3, 1.0, 2, synapse=neural.DeltaCurrent.partialconstructor(1.0))
    x = c.like_synaptic(torch.rand(1, 2, 4, 4))
    try:
        v = c.presyn_receptive(x)
        ok = tuple(v.shape) == (1, 1, 2, 2, 2, 9)
        return ok, f"presyn_receptive shape {tuple(v.shape)}"
    except Exception as e:
        return False, f"Conv2D.presyn_receptive raised {type(e).__name__}"


def c08_triplet_delayed():
    """C08: triplet STDP with connection delays (trainer `delayed` mode)."""
    conn = neural.LinearDense((2,), (2,), 1.0, synapse=neural.DeltaCurrent.partialconstructor(1.0), delay=2.0)
    neu = neural.LIF((2,), 1.0, rest_v=-60.0, reset_v=-65.0, thresh_v=-50.0, refrac_t=0.0, time_constant=20.0)
    layer = neural.Serial(conn, neu)
    conn.updater = conn.defaultupdater()
    tr = learn.TripletSTDP(1.0, 1.0, -1.0, -1.0, 20.0, 40.0, 20.0, 40.0, delayed=True)
    tr.register_cell("c", layer.cell)
    try:
        layer(torch.ones(1, 2).bool())
        tr()
        return True, "delayed TripletSTDP step ran"
    except AttributeError as e:
        return False, f"delayed TripletSTDP step raised AttributeError: {e}"


def c09_homeostasis_target_carryover():
    """C09: homeostatic plasticity moves each cell's parameter toward ITS OWN target rate."""
    def cell():
        conn = neural.LinearDense((1,), (1,), 1.0, synapse=neural.DeltaCurrent.partialconstructor(1.0))
        neu = neural.LIF((1,), 1.0, rest_v=-60.0, reset_v=-65.0, thresh_v=-50.0, refrac_t=1.0, time_constant=20.0)
        lay = neural.Serial(conn, neu)
        conn.updater = conn.defaultupdater()
        return lay
    la, lb = cell(), cell()
    tr = learn.LinearHomeostasis(1.0, 0.25, "weight")
    tr.register_cell("c0", la.cell)
    tr.register_cell("c1", lb.cell, target=0.75)
    for lay in (la, lb):
        lay.neuron.voltage = torch.full_like(lay.neuron.voltage, -40.0)   # spike now (rate 1.0 after one step)
        lay(torch.zeros(1, 1).bool())
    tr()
    p1, n1 = lb.connection.updater.weight.pos, lb.connection.updater.weight.neg
    # rate 1.0: c1's own target 0.75 gives k = (0.75-1)/0.75 = -1/3; the leaked target 0.25 gives k = -3
    mag = float((p1 if p1 is not None else torch.zeros(1)).abs().sum() + (n1 if n1 is not None else torch.zeros(1)).abs().sum())
    ok = abs(mag - 1.0 / 3.0) < 1e-9
    return ok, f"cell c1 (own target 0.75, rate 1.0): |k| = {mag:.6f}, documented 0.333333 (3.0 means the first cell's target 0.25 was used)"


def c10_updater_reduction():
    """C10: a custom reduction passed at construction is the one used."""
    conn = neural.LinearDense((2,), (2,), 1.0, synapse=neural.DeltaCurrent.partialconstructor(1.0))
    used = []

    def red(x, dim):
        used.append(1)
        return x.amax(dim)
    try:
        up = neural.Updater(conn, "weight", reduction=red)
    except Exception as e:
        return False, f"Updater(reduction=f) raised {type(e).__name__}: {e}"
    w0 = conn.weight.clone()
    up.weight.pos = torch.ones(2, 2)
    up.weight.pos = 3 * torch.ones(2, 2)
    conn.updater = up
    conn.update()
    ok = bool(used) and torch.allclose(conn.weight, w0 + 3)
    return ok, f"custom reduction called {len(used)} times; delta={(conn.weight - w0).tolist()}"


def c10_bound_power():
    """C10: full power / scaled power bounding functions are usable."""
    p = torch.tensor([0.25])
    try:
        a = functional.bound_power(p, torch.tensor([1.0]), torch.tensor([1.0]), 1.0, 0.0, upper_power=2.0, lower_power=2.0)
        b = functional.bound_scaled_power(p, torch.tensor([1.0]), torch.tensor([1.0]), 1.0, 0.0, upper_power=2.0, lower_power=2.0)
        ok = math.isclose(a.item(), 0.75 ** 2 - 0.25 ** 2) and math.isclose(b.item(), 0.75 ** 2 - 0.25 ** 2)
        return ok, f"bound_power={a.item()}, bound_scaled_power={b.item()}"
    except TypeError as e:
        return False, f"bound_power raised TypeError: {e}"


def c13_temporal_uninit():
    """C13: resizing never fails merely because storage is not initialised yet."""
    msgs = []
    for attr, val in (("dt", 0.5), ("duration", 5.0), ("inclusive", False)):
        r = rt(3, None)
        try:
            setattr(r, attr, val)
        except RuntimeError as e:
            msgs.append(f"{attr}={val}: {e}")
    return not msgs, "; ".join(msgs) or "temporal setters work on uninitialised storage"


def c14_reducer_duration():
    """C14: assigning one attribute never changes another attribute's reported value."""
    r = observe.PassthroughReducer(1.0, duration=3.0)
    r(torch.zeros(2))  # initialise the record (keeps this repro independent of c13_temporal_uninit)
    try:
        r.duration = 5.0
    except Exception as e:
        return False, f"duration setter raised {e}"
    ok = r.dt == 1.0 and r.duration == 5.0
    r2 = observe.PassthroughReducer(1.0, duration=3.0)
    r2(torch.zeros(2))
    try:
        r2.duration = 0.0
        ok = ok and r2.duration == 0.0
    except Exception as e:
        return False, f"duration=0 (valid at construction) rejected by the setter: {e}"
    return ok, f"after duration=5.0: dt={r.dt}, duration={r.duration}"


def c14_delay_setter():
    """C14: a component configured by assignment sizes its histories like a freshly constructed one."""
    a = neural.DeltaCurrent((2,), 1.0, spike_charge=1.0, delay=3.0)
    b = neural.DeltaCurrent((2,), 1.0, spike_charge=1.0, delay=1.0)
    b.delay = 3.0
    ok = a.spike_.recordsz == b.spike_.recordsz
    return ok, f"constructed delay=3.0 -> recordsz {a.spike_.recordsz}; delay setter 3.0 -> recordsz {b.spike_.recordsz}"


def c14_synapse_setter():
    """C14: replacement synapse via the connection's setter is reported back."""
    conn = neural.LinearDense((2,), (2,), 1.0, synapse=neural.DeltaCurrent.partialconstructor(1.0))
    new = neural.DeltaCurrent((2,), 1.0, spike_charge=2.0)
    conn.synapse = new
    return conn.synapse is new, f"conn.synapse is new -> {conn.synapse is new}"


def _cell(layer_cls=None):
    conn = neural.LinearDense((2,), (2,), 1.0, synapse=neural.DeltaCurrent.partialconstructor(1.0))
    neu = neural.LIF((2,), 1.0, rest_v=-60.0, reset_v=-65.0, thresh_v=-50.0, refrac_t=0.0, time_constant=20.0)
    layer = neural.Serial(conn, neu)
    conn.updater = conn.defaultupdater()
    return layer


def c15_cross_layer_alias():
    """C15: cells isolated - a trainer registered on cells of two different layers."""
    la, lb = _cell(), _cell()
    tr = learn.STDP(1.0, -1.0, 20.0, 20.0)
    tr.register_cell("a", la.cell)
    tr.register_cell("b", lb.cell)
    ma = dict(tr.monitor_pool_.named_monitors_of("a")) if hasattr(tr.monitor_pool_, "named_monitors_of") else None
    mb = dict(tr.monitor_pool_.named_monitors_of("b"))
    shared = [k for k in ma if ma[k] is mb[k]]
    return not shared, f"monitors shared between cells of different layers: {shared}"


def c15_trainer_listing():
    """C15: the trainer's monitor and cell listings reflect exactly what is registered."""
    la = _cell()
    tr = learn.STDP(1.0, -1.0, 20.0, 20.0)
    tr.register_cell("a", la.cell)
    try:
        n = len(list(tr.monitors))
        m = len(list(tr.named_monitors))
        return n == 4 and m == 4, f"monitors={n}, named_monitors={m}"
    except TypeError as e:
        return False, f"CellTrainer.monitors raised TypeError: {e}"


def c17_layer_clear():
    """C17: clearing a layer succeeds on any layer."""
    la = _cell()
    la(torch.ones(1, 2).bool())
    try:
        la.clear()
        return True, "Layer.clear() ran"
    except AttributeError as e:
        return False, f"Layer.clear() raised AttributeError: {e}"


def c17_biclique_shape():
    """C17: every layer output has its neuron group's batched shape (Biclique with a built-in combine)."""
    syn = neural.DeltaCurrent.partialconstructor(1.0)
    mk = lambda: neural.LinearDense((3,), (2,), 1.0, synapse=syn, batch_size=2)
    lif = lambda: neural.LIF((2,), 1.0, rest_v=-60.0, reset_v=-65.0, thresh_v=-50.0, refrac_t=0.0, time_constant=20.0, batch_size=2)
    layer = neural.Biclique([("a", mk()), ("b", mk())], [("x", lif())], combine="sum")
    x = torch.ones(2, 3).bool()
    out = layer({"a": (x,), "b": (x,)})["x"]
    v = layer.neurons_["x"].voltage
    ok = tuple(out.shape) == (2, 2) and tuple(v.shape) == (2, 2)
    return ok, f"Biclique output shape {tuple(out.shape)}, neuron voltage shape {tuple(v.shape)} (batched shape is (2, 2))"


def c19_refrac_ignored():
    """C19: the refractory Poisson encoder never places two spikes closer than the refractory period."""
    g = torch.Generator().manual_seed(0)
    from inferno.neural.functional import encoding as enc
    res = enc.homogeneous_poisson_exp_interval(torch.full((64,), 150.0), 400, 1.0, refrac=5.0, compensate=True, generator=g)
    res = res.reshape(400, -1)
    mingap = 10 ** 9
    for e in range(res.shape[1]):
        idx = res[:, e].nonzero().flatten().tolist()
        for a, b in zip(idx, idx[1:]):
            mingap = min(mingap, b - a)
    return mingap >= 5, f"minimum gap {mingap} steps with refrac = 5 steps"


def c19_online_exp_interval_shape():
    """C19: the online refractory encoder yields `steps` per-step slices (any number of elements)."""
    from inferno.neural.functional import encoding as enc
    g = torch.Generator().manual_seed(0)
    try:
        out = list(enc.homogeneous_poisson_exp_interval_online(torch.tensor([0.0, 300.0, 150.0]), 50, 1.0, refrac=2.0, generator=g))
    except RuntimeError as e:
        return False, f"online encoder raised RuntimeError on the first spike: {str(e)[:120]}"
    ok = len(out) == 50 and all(tuple(o.shape) == (3,) and o.dtype == torch.bool for o in out) and not any(bool(o[0]) for o in out)
    return ok, f"online encoder yielded {len(out)} slices"


def c19_setter_refrac_none():
    """C19: configurations with refrac=None are reachable through the documented setter."""
    from inferno.neural import HomogeneousPoissonEncoder
    e = HomogeneousPoissonEncoder(5, 1.0, 100.0, refrac=2.0)
    try:
        e.refrac = None
    except AttributeError as ex:
        return False, f"`encoder.refrac = None` raised AttributeError: {ex}"
    e.dt = 0.5
    return e.refrac == 0.5, f"after refrac=None and dt=0.5 the refractory period reports {e.refrac}"


def c19_setter_approx_frequency():
    """C19: the maximum frequency of the Bernoulli-approximation encoder is assignable."""
    from inferno.neural import HomogeneousPoissonApproxEncoder
    e = HomogeneousPoissonApproxEncoder(5, 1.0, 100.0)
    try:
        e.frequency = 50.0
    except AttributeError as ex:
        return False, f"`encoder.frequency = 50.0` raised AttributeError: {ex}"
    return e.frequency == 50.0, f"frequency reports {e.frequency}"


def c09_mstdpet_trace_mode_pooling():
    """C09/C15: two MSTDPET cells sharing a neuron group but using different trace modes keep separate traces."""
    syn = neural.DeltaCurrent.partialconstructor(1.0)
    mk = lambda: neural.LinearDense((1,), (1,), 1.0, synapse=syn)
    lif = neural.LIF((1,), 1.0, rest_v=-60.0, reset_v=-65.0, thresh_v=-50.0, refrac_t=1.0, time_constant=20.0)
    ca, cb = mk(), mk()
    layer = neural.Biclique([("a", ca), ("b", cb)], [("x", lif)], combine="sum")
    ca.updater, cb.updater = ca.defaultupdater(), cb.defaultupdater()
    tr = learn.MSTDPET(1.0, -0.5, 20.0, 15.0, 10.0)
    tr.register_cell("a", layer.get_cell("a", "x"))
    tr.register_cell("b", layer.get_cell("b", "x"), trace_mode="nearest")
    ma = dict(tr.monitor_pool_.named_monitors_of("a"))
    mb = dict(tr.monitor_pool_.named_monitors_of("b"))
    shared = [k for k in ("trace_post", "trace_pre") if k in ma and k in mb and ma[k] is mb[k]]
    return not shared, f"trace monitors shared between a cumulative-mode and a nearest-mode cell: {shared}"


def c18_numpy_reward_signal():
    """C08/C18: a reward given as numpy.float64 (a float) scales the update like the same python float."""
    import numpy as np
    def run(sig):
        conn = neural.LinearDense((1,), (1,), 1.0, synapse=neural.DeltaCurrent.partialconstructor(1.0))
        neu = neural.LIF((1,), 1.0, rest_v=-60.0, reset_v=-65.0, thresh_v=-50.0, refrac_t=1.0, time_constant=20.0)
        lay = neural.Serial(conn, neu)
        conn.updater = conn.defaultupdater()
        tr = learn.MSTDP(1.0, -0.5, 20.0, 15.0)
        tr.register_cell("c", lay.cell)
        for _ in range(3):
            lay.neuron.voltage = torch.full_like(lay.neuron.voltage, -40.0)
            lay(torch.ones(1, 1).bool())
        tr(sig)
        a = conn.updater.weight
        return (None if a.pos is None else float(a.pos.sum()), None if a.neg is None else float(a.neg.sum()))
    a, b = run(1.0), run(np.float64(1.0))
    return a == b, f"signal 1.0 -> parts {a}; signal numpy.float64(1.0) -> parts {b}"


def c18_zero_dim_tensor_reward_signal():
    """C08/C18: a scalar reward given as a 0-d tensor scales the update like the same python float."""
    def run(sig):
        conn = neural.LinearDense((1,), (1,), 1.0, synapse=neural.DeltaCurrent.partialconstructor(1.0))
        neu = neural.LIF((1,), 1.0, rest_v=-60.0, reset_v=-65.0, thresh_v=-50.0, refrac_t=1.0, time_constant=20.0)
        lay = neural.Serial(conn, neu)
        conn.updater = conn.defaultupdater()
        tr = learn.MSTDP(1.0, -0.5, 20.0, 15.0)
        tr.register_cell("c", lay.cell)
        for _ in range(3):
            lay.neuron.voltage = torch.full_like(lay.neuron.voltage, -40.0)
            lay(torch.ones(1, 1).bool())
        tr(sig)
        a = conn.updater.weight
        return (None if a.pos is None else float(a.pos.sum()), None if a.neg is None else float(a.neg.sum()))
    a, b = run(1.0), run(torch.tensor(1.0))
    return a == b, f"signal 1.0 -> parts {a}; signal torch.tensor(1.0) (0-d) -> parts {b}"


def c12_classifier_fresh_buffers():
    """C12: a step-0 checkpoint of a classifier restored into a fresh classifier leaves it unchanged."""
    c = learn.MaxRateClassifier((4,), 3)
    before = {k: getattr(c, k).clone() for k in ("assignments", "occurrences", "proportions")}
    c.load_state_dict(learn.MaxRateClassifier((4,), 3).state_dict())
    diff = [k for k, v in before.items() if not torch.equal(v, getattr(c, k))]
    return not diff, f"derived buffers changed by loading an identical fresh state: {diff} (occurrences {before['occurrences'].tolist()} -> {c.occurrences.tolist()})"


def c01_range_write_dtype():
    """C01: a tensor-offset range write converts the observations to the record's own data type (as documented)."""
    from inferno import RecordTensor, Module
    obs = torch.tensor([[0.5, 1.5], [2.5, 3.5]])
    o = Module()
    RecordTensor.create(o, "rec", 1.0, 2.0, torch.tensor([1, 2]), inclusive=True)  # int64 storage, 3 slots
    o.rec.incr(2)
    try:
        o.rec.writerange(obs, torch.tensor([0, 0]))
    except Exception as e:
        return False, f"writerange(float obs, tensor offsets) on an int64 record raised {type(e).__name__}: {str(e)[:80]}"
    return o.rec.value.dtype == torch.int64, f"storage dtype {o.rec.value.dtype}, newest {o.rec.peek().tolist()}"


def c01_narrow_offset_overflow():
    """C01: tensor offsets of any integer dtype address the same observations as the equal int64 offsets."""
    r = rt(3, torch.zeros(2))
    for k in range(1, 4):
        r.push(torch.tensor([float(k), 10.0 * k]))
    a = r.readrange(3, torch.tensor([254, 253], dtype=torch.uint8), forward=False).tolist()
    b = r.readrange(3, torch.tensor([254, 253], dtype=torch.int64), forward=False).tolist()
    return a == b, f"readrange(3, uint8 offsets [254, 253]) = {a}; same offsets as int64 = {b}"


def c10_trainer_update_applies_updaters():
    """C10: CellTrainer.update() applies every registered cell's updater once (also when two cells share an updater)."""
    conn = neural.LinearDense((1,), (1,), 1.0, synapse=neural.DeltaCurrent.partialconstructor(1.0))
    neu = neural.LIF((1,), 1.0, rest_v=-60.0, reset_v=-65.0, thresh_v=-50.0, refrac_t=1.0, time_constant=20.0)
    lay = neural.Serial(conn, neu)
    conn.updater = conn.defaultupdater()
    tr = learn.STDP(1.0, -0.5, 20.0, 15.0)
    tr.register_cell("c", lay.cell)
    w0 = float(conn.weight.sum())
    conn.updater.weight = (torch.full_like(conn.weight, 0.25), None)
    try:
        tr.update()
    except Exception as e:
        return False, f"trainer.update() raised {type(e).__name__}: {e}"
    w1 = float(conn.weight.sum())
    return abs(w1 - (w0 + 0.25)) < 1e-6, f"weight {w0} -> {w1} after trainer.update() with a pending +0.25"


def c20_integer_support_truncates_parameters():
    """C20: the probability mass at integer counts does not depend on the dtype the counts are given in."""
    from inferno.stats import Poisson, Normal
    k = torch.arange(6)
    a = Poisson.pmf(k, 2.5)
    b = Poisson.pmf(k.double(), 2.5)
    c = Normal.pdf(torch.arange(3), 0.5, 1.5)
    d = Normal.pdf(torch.arange(3).double(), 0.5, 1.5)
    ok = torch.allclose(a.double(), b, rtol=1e-5) and torch.allclose(c.double(), d, rtol=1e-5)
    return ok, f"Poisson.pmf(arange(6), 2.5) = {[round(float(x), 4) for x in a]} but with float counts {[round(float(x), 4) for x in b]} (the rate was truncated to 2)"


def c13_value_none_assignment():
    """C13/C01: assigning None (or an empty tensor) to RecordTensor.value de-initialises the storage and rewinds the pointer."""
    from inferno import RecordTensor, Module
    m = Module()
    r = RecordTensor(m, "r", 1.0, 2.0, torch.zeros(2))
    r.push(torch.ones(2))
    try:
        r.value = None
    except Exception as e:
        return False, f"`record.value = None` raised {type(e).__name__}: {e} (value is now {r.value}, pointer {r.pointer})"
    return r.value is None and r.pointer == 0, f"value {r.value}, pointer {r.pointer}"


def c20_vp_integer_cost_tensor():
    """C20: the Victor-Purpura distance does not depend on the dtype the cost is given in."""
    from inferno import victor_purpura_pair_dist as vp
    a, b = torch.tensor([0.0, 3.0]), torch.tensor([0.4, 3.3])
    d_int = vp(a, b, torch.tensor([1]))
    d_flt = vp(a, b, torch.tensor([1.0]))
    ok = d_int.is_floating_point() and torch.allclose(d_int.double(), d_flt.double())
    return ok, f"d(cost=tensor([1])) = {d_int.tolist()} ({d_int.dtype}); d(cost=tensor([1.])) = {d_flt.tolist()}"


def c20_lognormal_logcdf():
    """C20: log-CDF equals log of the CDF."""
    try:
        v = stats.LogNormal.logcdf(torch.tensor([1.0]), torch.tensor([0.0]), torch.tensor([1.0]))
        return math.isclose(v.item(), math.log(0.5)), f"LogNormal.logcdf(1;0,1) = {v.item()}"
    except RecursionError:
        return False, "LogNormal.logcdf recurses forever (RecursionError)"


def c20_poisson_logpmf():
    """C20: the mass function sums to one."""
    k = torch.arange(0, 200).double()
    s = stats.Poisson.pmf(k, torch.tensor(3.0)).sum().item()
    return math.isclose(s, 1.0, rel_tol=1e-9), f"sum_k Poisson.pmf(k; 3) = {s}"


ALL = {k: v for k, v in list(globals().items()) if k[:1] == "c" and k[1:3].isdigit() and callable(v)}

if __name__ == "__main__":
    names = list(ALL) if sys.argv[1:] in ([], ["all"]) else sys.argv[1:]
    bad = 0
    for n in names:
        try:
            ok, msg = ALL[n]()
        except Exception as e:  # a crash of the repro itself is reported, not hidden
            ok, msg = False, f"repro crashed: {type(e).__name__}: {e}"
        print(("ok     " if ok else "DEFECT ") + n + ": " + msg)
        bad += not ok
    sys.exit(1 if bad else 0)
