From Coq Require Import List ZArith Lia Arith.
Import ListNotations.
Ltac Zify.zify_post_hook ::= Z.div_mod_to_equations.

Section Ring.
Context {A : Type} (d : A).

Definition unwind (ptr off size : Z) : Z := ((ptr - off) mod size)%Z.

Record ring := { N : nat; ptr : nat; data : list A }.
Definition wf (s : ring) := 0 < N s /\ ptr s < N s /\ length (data s) = N s.

Definition idx (s : ring) (k : Z) : nat := Z.to_nat (unwind (Z.of_nat (ptr s)) k (Z.of_nat (N s))).
Definition at_ (s : ring) (k : Z) : A := nth (idx s k) (data s) d.

(* out-of-place write: splice *)
Definition write_splice (s : ring) (o : A) (off : Z) : ring :=
  let i := idx s off in
  {| N := N s; ptr := ptr s; data := firstn i (data s) ++ [o] ++ skipn (i + 1) (data s) |}.
(* in-place write: index update *)
Fixpoint upd (l : list A) (i : nat) (o : A) : list A :=
  match l, i with [], _ => [] | _ :: t, O => o :: t | h :: t, S j => h :: upd t j o end.
Definition write_inplace (s : ring) (o : A) (off : Z) : ring :=
  {| N := N s; ptr := ptr s; data := upd (data s) (idx s off) o |}.
Definition incr (s : ring) (j : Z) : ring :=
  {| N := N s; ptr := Z.to_nat (unwind (Z.of_nat (ptr s)) (- j) (Z.of_nat (N s))); data := data s |}.
Definition push (s : ring) (o : A) : ring := incr (write_splice s o 0) 1.

Lemma idx_lt s k : wf s -> idx s k < N s.
Proof. intros (Hn & Hp & Hl). unfold idx, unwind. lia. Qed.

Lemma nth_skipn' (l : list A) n j : nth j (skipn n l) d = nth (n + j) l d.
Proof. revert l; induction n as [|n IH]; intros l; [reflexivity|]. destruct l as [|h t]; [destruct j; reflexivity|]. cbn. apply IH. Qed.

Lemma nth_splice (l : list A) i o j : i < length l ->
  nth j (firstn i l ++ [o] ++ skipn (i + 1) l) d = if Nat.eqb j i then o else nth j l d.
Proof.
  intros Hi. destruct (Nat.eqb_spec j i) as [->|Hne].
  - rewrite app_nth2; rewrite firstn_length_le by lia; [|lia]. now rewrite Nat.sub_diag.
  - destruct (Nat.lt_ge_cases j i) as [Hlt|Hge].
    + rewrite app_nth1 by (rewrite firstn_length_le; lia).
      rewrite <- (firstn_skipn i l) at 2. rewrite app_nth1 by (rewrite firstn_length_le; lia). reflexivity.
    + rewrite app_nth2 by (rewrite firstn_length_le; lia). rewrite firstn_length_le by lia.
      replace (j - i) with (S (j - i - 1)) by lia. cbn [app nth].
      rewrite nth_skipn'. f_equal. lia.
Qed.

Lemma upd_length l i o : length (upd l i o) = length l.
Proof. revert i; induction l as [|h t IH]; intros [|i]; cbn; auto. Qed.
Lemma nth_upd l i o j : i < length l -> nth j (upd l i o) d = if Nat.eqb j i then o else nth j l d.
Proof.
  revert i j; induction l as [|h t IH]; intros i j Hi; [cbn in Hi; lia|].
  destruct i as [|i], j as [|j]; cbn; auto. apply IH. cbn in Hi; lia.
Qed.

Lemma splice_eq_inplace s o off : wf s -> data (write_splice s o off) = data (write_inplace s o off).
Proof.
  intros Hwf. pose proof (idx_lt s off Hwf) as Hi. destruct Hwf as (Hn & Hp & Hl).
  apply nth_ext with (d := d) (d' := d).
  - cbn [write_splice write_inplace data]. rewrite !app_length, firstn_length_le, skipn_length, upd_length by lia. cbn [length]. lia.
  - intros j _. cbn [write_splice write_inplace data]. rewrite nth_splice, nth_upd by lia. reflexivity.
Qed.

Lemma mod_sub_cong (p k k' n : Z) : (0 < n)%Z -> ((p - k) mod n = (p - k') mod n <-> k mod n = k' mod n)%Z.
Proof.
  intros Hn. split; intros H.
  - assert (E : (k' - k = n * ((p - k) / n - (p - k') / n))%Z).
    { pose proof (Z.div_mod (p - k) n ltac:(lia)). pose proof (Z.div_mod (p - k') n ltac:(lia)). rewrite Z.mul_sub_distr_l. lia. }
    replace k' with (k + ((p - k) / n - (p - k') / n) * n)%Z by lia. now rewrite Z.mod_add by lia.
  - assert (E : (k' - k = n * (k' / n - k / n))%Z).
    { pose proof (Z.div_mod k n ltac:(lia)). pose proof (Z.div_mod k' n ltac:(lia)). rewrite Z.mul_sub_distr_l. lia. }
    replace (p - k)%Z with ((p - k') + (k' / n - k / n) * n)%Z by lia. now rewrite Z.mod_add by lia.
Qed.
Lemma idx_eq_iff s k k' : wf s -> (idx s k = idx s k' <-> (k mod Z.of_nat (N s) = k' mod Z.of_nat (N s))%Z).
Proof. intros (Hn & Hp & Hl). unfold idx, unwind. rewrite <- (mod_sub_cong (Z.of_nat (ptr s))) by lia.
  pose proof (Z.mod_pos_bound (Z.of_nat (ptr s) - k) (Z.of_nat (N s)) ltac:(lia)).
  pose proof (Z.mod_pos_bound (Z.of_nat (ptr s) - k') (Z.of_nat (N s)) ltac:(lia)).
  split; intros H'; [apply Z2Nat.inj in H'; lia | now rewrite H']. Qed.

Theorem at_write s o off k : wf s ->
  at_ (write_splice s o off) k = if Z.eqb (k mod Z.of_nat (N s)) (off mod Z.of_nat (N s)) then o else at_ s k.
Proof.
  intros Hwf. pose proof (idx_lt s off Hwf) as Hi. pose proof (idx_eq_iff s k off Hwf) as Hiff.
  destruct Hwf as (Hn & Hp & Hl).
  unfold at_. change (idx (write_splice s o off) k) with (idx s k). cbn [write_splice data].
  rewrite nth_splice by lia.
  destruct (Nat.eqb_spec (idx s k) (idx s off)) as [He|He]; destruct (Z.eqb_spec (k mod Z.of_nat (N s)) (off mod Z.of_nat (N s))) as [Hz|Hz]; first [reflexivity | exfalso; tauto].
Qed.

Theorem at_incr s j k : wf s -> at_ (incr s j) k = at_ s (k - j).
Proof.
  intros (Hn & Hp & Hl). unfold at_, incr, idx, unwind; cbn. f_equal. f_equal.
  rewrite Z2Nat.id by (apply Z.mod_pos_bound; lia). rewrite Zminus_mod_idemp_l. f_equal. lia.
Qed.

(* history newest first: at 1 .. at N *)
Definition hist (s : ring) : list A := map (fun k => at_ s (Z.of_nat k + 1)) (seq 0 (N s)).

Lemma wf_write s o off : wf s -> wf (write_splice s o off).
Proof. intros Hwf. pose proof (idx_lt s off Hwf). destruct Hwf as (Hn & Hp & Hl). repeat split; cbn [write_splice N ptr data]; auto.
  rewrite !app_length, firstn_length_le, skipn_length by lia. cbn [length]. lia. Qed.

Lemma nth_map_seq (f : nat -> A) n i : i < n -> nth i (map f (seq 0 n)) d = f i.
Proof. intros Hi. rewrite (nth_indep _ d (f 0)) by (rewrite map_length, seq_length; lia). rewrite map_nth, seq_nth by lia. reflexivity. Qed.
Lemma removelast_map_seq (f : nat -> A) n : removelast (map f (seq 0 (S n))) = map f (seq 0 n).
Proof. rewrite seq_S, map_app. cbn [map]. apply removelast_last. Qed.

Theorem hist_push s o : wf s -> hist (push s o) = o :: removelast (hist s).
Proof.
  intros Hwf. pose proof (wf_write s o 0 Hwf) as Hwf'. pose proof Hwf as (Hn & Hp & Hl).
  unfold hist, push. change (N (incr (write_splice s o 0) 1)) with (N s).
  destruct (N s) as [|n] eqn:E; [lia|]. rewrite removelast_map_seq.
  apply nth_ext with (d := d) (d' := d).
  - cbn [length]. rewrite !map_length, !seq_length. reflexivity.
  - intros i Hi. rewrite map_length, seq_length in Hi.
    rewrite nth_map_seq by lia. rewrite at_incr by exact Hwf'. rewrite at_write by exact Hwf. rewrite E.
    destruct i as [|i]; cbn [nth].
    + replace (Z.of_nat 0 + 1 - 1)%Z with 0%Z by lia. rewrite Z.eqb_refl. reflexivity.
    + rewrite nth_map_seq by lia.
      destruct (Z.eqb_spec ((Z.of_nat (S i) + 1 - 1) mod Z.of_nat (S n)) (0 mod Z.of_nat (S n))) as [Hz|Hz].
      * rewrite Z.mod_small in Hz by lia. rewrite Z.mod_0_l in Hz by lia. lia.
      * f_equal. lia.
Qed.
End Ring.
Print Assumptions hist_push.
