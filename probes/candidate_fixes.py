import re, pathlib
root = pathlib.Path('SCRATCH_COPY/inferno')
def sub(path, old, new, count=1):
    p = root/path; s = p.read_text()
    assert s.count(old) >= count, (path, old, s.count(old))
    s = s.replace(old, new) if count == -1 else s.replace(old, new, count)
    p.write_text(s)
# 1 C01 push dtype
sub('core/infrastructure.py', "            self.initialize(obs.shape, device=obs.device, fill=0)",
    "            self.initialize(\n                obs.shape,\n                device=obs.device,\n                dtype=obs.dtype if self.__data is None else None,\n                fill=0,\n            )")
# 2 C01 readrange
sub('core/infrastructure.py', "            if start > end:\n                return ein.rearrange(", "            if start >= end:\n                return ein.rearrange(")
# 3 C04
sub('neural/synapses/mixins.py', "            self.__overbound,\n            self.__tolerance,\n            None,\n        ).to(dtype=self.spike_.value.dtype", "            self.__tolerance,\n            self.__overbound,\n            None,\n        ).to(dtype=self.spike_.value.dtype")
# 4 conv
sub('neural/connections/conv.py', '"b n l ... -> b (...) c kh kw l"', '"b (c kh kw) l ... -> b (...) c kh kw l"')
# 5 triplet
sub('learn/trainers/two_factor_stdp.py', 'monitors["trace_post_slow"].interpolate', 'monitors["trace_pre_slow"].reducer.interpolate', -1)
# 6 updater
sub('neural/modeling.py', "            for acc in self.updates_.values:\n                acc.reduction = reduction", "            for acc in self.updates_.values():\n                acc.reduction(reduction)")
# 7 bounding
sub('functional/bounding.py', "pos = bound_upper_power(param, pos, max, upper_power)", "pos = bound_upper_power(param, pos, max, power=upper_power)")
sub('functional/bounding.py', "neg = bound_lower_power(param, neg, min, lower_power)", "neg = bound_lower_power(param, neg, min, power=lower_power)")
sub('functional/bounding.py', "pos = bound_upper_scaled_power(param, pos, max, upper_power, max - min)", "pos = bound_upper_scaled_power(\n            param, pos, max, power=upper_power, range=max - min\n        )")
sub('functional/bounding.py', "neg = bound_lower_scaled_power(param, neg, min, lower_power, max - min)", "neg = bound_lower_scaled_power(\n            param, neg, min, power=lower_power, range=max - min\n        )")
# 8 temporal setters
sub('core/infrastructure.py', "            with torch.no_grad():\n                self.align(0)\n                _ = ShapedTensor.reconstrain(self, 0, size)",
    "            with torch.no_grad():\n                if not self._ignore(self.__data):\n                    self.align(0)\n                _ = ShapedTensor.reconstrain(self, 0, size)", -1)
# 9 reducer duration
sub('observe/reducers/base.py', '        value = argtest.gt("duration", value, 0, float)\n        if value != self.__duration:\n            for rec in self.__records:\n                getattr(self, rec).duration = value\n            self.__step_time = value',
    '        value = argtest.gte("duration", value, 0, float)\n        if value != self.__duration:\n            for rec in self.__records:\n                getattr(self, rec).duration = value\n            self.__duration = value')
# 10 delay setter
sub('neural/mixins.py', "getattr(self, cstr).duration = value + self.__step_time", "getattr(self, cstr).duration = value")
# 11 synapse setter
sub('neural/base.py', "        self.synapses = value", "        self.synapse_ = value")
# 12 alias guard
sub('observe/pooling.py', "if not (obs.__basis() or id(obs.__basis()) != id(self.__basis())):", "if not obs.__basis() or id(obs.__basis()) != id(self.__basis()):")
# 14 trainer props
sub('learn/base.py', "return self.monitor_pool_.monitors()", "return self.monitor_pool_.monitors")
sub('learn/base.py', "return self.monitor_pool_.named_monitors()", "return self.monitor_pool_.named_monitors")
# 16 layer clear
sub('neural/network.py', "            for connection in self.connections_:\n                connection.clear(**kwargs)\n            for neuron in self.neurons_:\n                neuron.clear(**kwargs)",
    "            for connection in self.connections_.values():\n                connection.clear(**kwargs)\n            for neuron in self.neurons_.values():\n                neuron.clear(**kwargs)", -1)
# 17 refrac
sub('neural/functional/encoding.py', "refrac = step_time if refrac is None else step_time", "refrac = step_time if refrac is None else refrac", -1)
# 19, 20
sub('stats/distributions.py', "return torch.log(cls.logcdf(support, loc, scale))", "return torch.log(cls.cdf(support, loc, scale))")
sub('stats/distributions.py', "torch.special.xlogy(support, rate) - rate - torch.lgamma(rate + 1)", "torch.special.xlogy(support, rate) - rate - torch.lgamma(support + 1)")
print('applied')
