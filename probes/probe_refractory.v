From Coq Require Import Reals Lra Lia ZArith Bool List.
From Flocq Require Import Core.Raux.
Open Scope R_scope.
(* boolean comparisons of the R instance *)
Definition Rleb' (a b : R) : bool := if Rle_dec a b then true else false.
Definition Reqb' (a b : R) : bool := if Req_EM_T a b then true else false.
Lemma Rleb'_spec a b : reflect (a <= b) (Rleb' a b).
Proof. unfold Rleb'; destruct (Rle_dec a b); constructor; auto. Qed.
Lemma Reqb'_spec a b : reflect (a = b) (Reqb' a b).
Proof. unfold Reqb'; destruct (Req_EM_T a b); constructor; auto. Qed.

(* per-element neuron step as in voltage_thresholding_constant, refrac_lock = true *)
Record st := { v : R; r : R }.
Section Neuron.
Variables (dt reset thresh R_t : R) (dyn : R -> R -> R). (* dyn masked_input voltage *)
Hypothesis Hdt : 0 < dt.
Hypothesis HR : 0 <= R_t.
Definition step (s : st) (inp : R) : bool * st :=
  let r1 := Rmax (r s - dt) 0 in
  let mask := Reqb' r1 0 in
  let v1 := if mask then dyn (if mask then inp else 0) (v s) else v s in
  let spk := mask && Rleb' thresh v1 in
  (spk, {| v := if spk then reset else v1; r := if spk then R_t else r1 |}).

Fixpoint run (s : st) (inps : list R) : list bool * st :=
  match inps with
  | nil => (nil, s)
  | i :: tl => let '(b, s1) := step s i in let '(bs, s2) := run s1 tl in (b :: bs, s2)
  end.

Lemma step_refrac_nonneg s i : 0 <= r s -> 0 <= r (snd (step s i)).
Proof. intros H. unfold step; cbn. destruct (_ && _); cbn; [lra|]. apply Rmax_r. Qed.

(* n steps after a state with refrac = x >= 0 and no spike possible while refrac>0 *)
Lemma silent_while_refractory s i : dt < r s -> fst (step s i) = false /\ v (snd (step s i)) = v s /\ r (snd (step s i)) = r s - dt.
Proof.
  intros H. unfold step; cbn.
  assert (Hm : Rmax (r s - dt) 0 = r s - dt) by (apply Rmax_left; lra).
  rewrite Hm. destruct (Reqb'_spec (r s - dt) 0) as [E|E]; [lra|]. cbn. auto.
Qed.

Theorem refractory_window : forall (n : nat) s inps, INR n * dt < r s -> length inps = n ->
  Forall (fun b => b = false) (fst (run s inps)) /\ v (snd (run s inps)) = v s.
Proof.
  induction n as [|n IH]; intros s inps Hr Hl.
  - destruct inps; [|discriminate]. cbn. split; [constructor|reflexivity].
  - destruct inps as [|i tl]; [discriminate|]. cbn [run].
    rewrite S_INR in Hr.
    assert (Hdtr : dt < r s). { pose proof (pos_INR n). nra. }
    destruct (silent_while_refractory s i Hdtr) as (Hb & Hv & Hr').
    destruct (step s i) as [b s1] eqn:Es. cbn in Hb, Hv, Hr'. subst b.
    specialize (IH s1 tl). destruct (run s1 tl) as [bs s2] eqn:Er. cbn in IH |- *.
    assert (INR n * dt < r s1) by (rewrite Hr'; lra).
    destruct (IH H ltac:(cbn in Hl; lia)) as (Hf & Hv2). split; [constructor; auto|congruence].
Qed.

(* link to ceil: the number of silent steps after a spike is max(1, ceil(R/dt)) - 1 *)
Lemma ceil_steps (n : nat) : (Z.of_nat n < Zceil (R_t / dt))%Z -> INR n * dt < R_t.
Proof.
  intros H. assert (IZR (Z.of_nat n) < R_t / dt).
  { destruct (Rlt_or_le (IZR (Z.of_nat n)) (R_t / dt)) as [|Hle]; auto. apply Zceil_glb in Hle. lia. }
  rewrite <- INR_IZR_INZ in H0. apply Rmult_lt_compat_r with (r := dt) in H0; auto.
  unfold Rdiv in H0. rewrite Rmult_assoc, Rinv_l, Rmult_1_r in H0 by lra. exact H0.
Qed.
End Neuron.
Print Assumptions refractory_window.
